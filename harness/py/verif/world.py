"""One test world: mock backends + a pgcat process built from /repo + scripted clients."""
import json
import os
import shutil
import signal
import socket
import subprocess
import tempfile
import time

from . import mockpg
from .client import Client
from . import pgwire as W

VERIF = os.path.abspath(os.path.join(os.path.dirname(__file__), '..', '..', '..'))
WORK = os.path.join(VERIF, '.work')
BIN = os.path.join(VERIF, '.build', 'target', 'release', 'pgcat')
REPO = os.environ.get('VERIF_REPO', '/repo')


def toml_value(v):
    if isinstance(v, bool):
        return 'true' if v else 'false'
    if isinstance(v, (int, float)):
        return str(v)
    if isinstance(v, str):
        return json.dumps(v)
    if isinstance(v, (list, tuple)):
        return '[' + ', '.join(toml_value(x) for x in v) + ']'
    raise TypeError(v)


def render_config(general, pools, plugins=None):
    """pools: {name: {opts..., 'users': {idx: {...}}, 'shards': {sid: {'database':..,'servers':[[h,p,r]],
    'mirrors': [...]}}, 'plugins': {...}}}"""
    out = ['[general]']
    for k, v in general.items():
        out.append('%s = %s' % (k, toml_value(v)))
    if plugins:
        out += render_plugins('plugins', plugins)
    for name, p in pools.items():
        out.append('')
        out.append('[pools.%s]' % name)
        for k, v in p.items():
            if k in ('users', 'shards', 'plugins'):
                continue
            out.append('%s = %s' % (k, toml_value(v)))
        if p.get('plugins'):
            out += render_plugins('pools.%s.plugins' % name, p['plugins'])
        for idx, u in p['users'].items():
            out.append('[pools.%s.users.%s]' % (name, idx))
            for k, v in u.items():
                out.append('%s = %s' % (k, toml_value(v)))
        for sid, sh in p['shards'].items():
            out.append('[pools.%s.shards.%s]' % (name, sid))
            out.append('database = %s' % toml_value(sh.get('database', 'db')))
            out.append('servers = [' + ', '.join(
                '[%s, %d, %s]' % (toml_value(h), pt, toml_value(r)) for h, pt, r in sh['servers']) + ']')
            for m in sh.get('mirrors', []):
                out.append('[[pools.%s.shards.%s.mirrors]]' % (name, sid))
                for k, v in m.items():
                    out.append('%s = %s' % (k, toml_value(v)))
    return '\n'.join(out) + '\n'


def render_plugins(prefix, plugins):
    out = []
    for pname, pv in plugins.items():
        if pname == 'intercept':
            out.append('[%s.intercept]' % prefix)
            out.append('enabled = %s' % toml_value(pv.get('enabled', True)))
            for qid, q in pv.get('queries', {}).items():
                out.append('[%s.intercept.queries.%s]' % (prefix, qid))
                out.append('query = %s' % toml_value(q['query']))
                out.append('schema = [' + ', '.join(toml_value(list(x)) for x in q['schema']) + ']')
                out.append('result = [' + ', '.join(toml_value(list(x)) for x in q['result']) + ']')
        else:
            out.append('[%s.%s]' % (prefix, pname))
            for k, v in pv.items():
                out.append('%s = %s' % (k, toml_value(v)))
    return out


def default_general(port, **kw):
    g = {
        'host': '127.0.0.1', 'port': port,
        'admin_username': 'admin', 'admin_password': 'adminpw', 'admin_auth_type': 'trust',
        'worker_threads': 2, 'connect_timeout': 1000, 'idle_timeout': 600000,
        'server_lifetime': 86400000, 'healthcheck_timeout': 500, 'healthcheck_delay': 100000000,
        'shutdown_timeout': 3000, 'ban_time': 60, 'log_client_connections': False,
        'log_client_disconnections': False, 'autoreload': 0, 'tcp_keepalives_idle': 5,
    }
    g.update(kw)
    if g.get('autoreload') == 0:
        del g['autoreload']
    return g


def simple_pool(servers, pool_size=1, mode='transaction', user=None, shards=None, **kw):
    u = {'username': 'u', 'password': 'p', 'auth_type': 'trust', 'pool_size': pool_size}
    if user:
        u.update(user)
    u = {k: v for k, v in u.items() if v is not None}
    p = {'pool_mode': mode}
    p.update(kw)
    p['users'] = {'0': u}
    if shards is None:
        shards = {'0': {'database': 'db', 'servers': servers}}
    p['shards'] = shards
    return p


class World:
    """Context manager: backends (named), one pgcat, helper constructors."""

    _counter = [0]

    def __init__(self, tag='w', env=None, loglevel='warn'):
        World._counter[0] += 1
        os.makedirs(WORK, exist_ok=True)
        self.dir = tempfile.mkdtemp(prefix='%s_%d_' % (tag, os.getpid()), dir=WORK)
        self.log = mockpg.EventLog()
        self.backends = {}
        self.proc = None
        self.port = None
        self.env = dict(env or {})
        self.loglevel = loglevel
        self.trace_path = os.path.join(self.dir, 'hooks.ndjson')
        self.cfg_path = os.path.join(self.dir, 'pgcat.toml')
        self.clients = []
        self.keep = False

    def __enter__(self):
        return self

    def __exit__(self, *a):
        self.close()

    # ---- backends
    def backend(self, name, **labels):
        b = mockpg.Backend(name, self.log, labels)
        b.start()
        self.backends[name] = b
        return b

    # ---- pgcat
    def write_config(self, text):
        tmp = self.cfg_path + '.tmp'
        with open(tmp, 'w') as f:
            f.write(text)
        os.replace(tmp, self.cfg_path)

    def start(self, general=None, pools=None, plugins=None, text=None, wait=True, port=None):
        for attempt in range(6):
            try:
                return self._start(general, pools, plugins, text, wait, port)
            except RuntimeError as e:
                if 'AddrInUse' in str(e) and attempt < 5 and port is None:
                    continue
                raise

    def _start(self, general=None, pools=None, plugins=None, text=None, wait=True, port=None):
        self.port = port or W.free_port()
        if text is None:
            g = default_general(self.port)
            if general:
                g.update(general)
            text = render_config(g, pools, plugins)
        self.config_text = text
        self.write_config(text)
        env = dict(os.environ)
        env['PGCAT_VERIF_TRACE'] = self.trace_path
        env['RUST_BACKTRACE'] = '0'
        env.update(self.env)
        self.logf = open(os.path.join(self.dir, 'pgcat.log'), 'w')
        self.proc = subprocess.Popen([BIN, self.cfg_path, '--log-level', self.loglevel],
                                     stdout=self.logf, stderr=subprocess.STDOUT, env=env,
                                     cwd=self.dir)
        if wait:
            if not self.wait_listening():
                self.stop_proc()
                raise RuntimeError('pgcat did not start: ' + self.read_log()[-2000:])
            # the port was picked by bind(0)/close: another process may have taken it in between, in which case our
            # pgcat fails to bind and what answered the probe connection was somebody else.  Our own process records
            # the probe connection in its hook trace.
            deadline = time.time() + 6.0
            ours = False
            while time.time() < deadline:
                if self.proc.poll() is not None:
                    break
                if any(h['ev'] == 'accept' for h in self.hooks()):
                    ours = True
                    break
                time.sleep(0.01)
            if not ours:
                log = self.read_log()[-2000:]
                self.stop_proc()
                raise RuntimeError('AddrInUse (port %d answered, but not by this pgcat): %s' % (self.port, log))
        return self.proc

    def stop_proc(self):
        if self.proc is not None and self.proc.poll() is None:
            try:
                self.proc.kill()
                self.proc.wait(timeout=3)
            except Exception:
                pass
        try:
            os.unlink(self.trace_path)
        except OSError:
            pass

    def wait_listening(self, timeout=10.0):
        end = time.time() + timeout
        while time.time() < end:
            if self.proc.poll() is not None:
                return False
            try:
                s = socket.create_connection(('127.0.0.1', self.port), timeout=0.5)
                s.close()
                return True
            except OSError:
                time.sleep(0.02)
        return False

    def alive(self):
        return self.proc is not None and self.proc.poll() is None

    def read_log(self):
        try:
            self.logf.flush()
            return open(os.path.join(self.dir, 'pgcat.log')).read()
        except Exception:
            return ''

    def signal(self, sig):
        self.proc.send_signal(sig)

    def hooks(self):
        out = []
        try:
            with open(self.trace_path) as f:
                for line in f:
                    line = line.strip()
                    if line:
                        try:
                            out.append(json.loads(line))
                        except ValueError:
                            pass
        except FileNotFoundError:
            pass
        return out

    def wait_hook(self, pred, timeout=5.0, since=0):
        end = time.time() + timeout
        while time.time() < end:
            for h in self.hooks():
                if h['seq'] > since and pred(h):
                    return h
            time.sleep(0.01)
        return None

    def wait_backend_event(self, pred, timeout=5.0, since=0):
        end = time.time() + timeout
        while time.time() < end:
            for e in self.log.snapshot()[since:]:
                if pred(e):
                    return e
            time.sleep(0.005)
        return None

    # ---- clients
    def client(self, name='A', **kw):
        c = Client(self.port, name=name, **kw)
        self.clients.append(c)
        return c

    def admin(self, **kw):
        kw.setdefault('db', 'pgcat')
        kw.setdefault('user', 'admin')
        c = Client(self.port, name='ADMIN', **kw)
        self.clients.append(c)
        return c

    def admin_cmd(self, sql, timeout=5.0):
        a = self.admin()
        try:
            a.send(W.Q(sql))
            return a.read_reply(timeout)
        finally:
            a.close()

    def admin_rows(self, sql, timeout=5.0):
        """Rows of an admin SHOW command as list of dicts."""
        rep = self.admin_cmd(sql, timeout)
        cols = []
        for t, b in rep.msgs:
            if t == 'T':
                import struct
                n = struct.unpack('!h', b[:2])[0]
                off = 2
                for _ in range(n):
                    end = b.index(b'\0', off)
                    cols.append(b[off:end].decode())
                    off = end + 1 + 18
        out = []
        for r in rep.rows:
            out.append({c: (v.decode(errors='replace') if v is not None else None) for c, v in zip(cols, r)})
        return out

    def close(self):
        for c in self.clients:
            c.close()
        if self.proc is not None and self.proc.poll() is None:
            try:
                self.proc.send_signal(signal.SIGTERM)
                self.proc.wait(timeout=3)
            except Exception:
                try:
                    self.proc.kill()
                    self.proc.wait(timeout=3)
                except Exception:
                    pass
        for b in self.backends.values():
            b.stop()
        try:
            self.logf.close()
        except Exception:
            pass
        if not self.keep:
            shutil.rmtree(self.dir, ignore_errors=True)
