"""Property id -> check function."""
import json

from . import props_pool, props_router, props_plugins, props_relay, props_pause, props_shutdown, props_reload, props_prepared, props_params, props_auth, props_config, props_hostile, props_failover, props_stats, props_mirror

CHECKS = {
    'C01': props_pool.check,
    'C02': props_pool.check,
    'C04': props_pool.check,
    'C10': props_pool.check,
    'C05': props_router.check_c05,
    'C13': props_router.check_c13,
    'C06': props_router.check_c06,
    'C19': props_plugins.check_c19,
    'C03': props_relay.check_c03,
    'C16': props_pause.check_c16,
    'C17': props_shutdown.check_c17,
    'C14': props_reload.check_c14,
    'C08': props_prepared.check_c08,
    'C12': props_params.check_c12,
    'C09': props_auth.check_c09,
    'C15': props_config.check_c15,
    'C11': props_hostile.check_c11,
    'C07': props_failover.check_c07,
    'C18': props_stats.check_c18,
    'C20': props_mirror.check_c20,
}


# properties whose replay file holds one scenario item: (scenario runner, trace module)
REPLAYERS = {
    'C07': (props_failover.run_scenario, 'Trace_Failover'),
    'C08': (props_prepared.run_scenario, 'Trace_Prepared'),
    'C12': (props_params.run_scenario, 'Trace_Params'),
    'C14': (props_reload.run_scenario, 'Trace_Reload'),
    'C18': (props_stats.run_scenario, 'Trace_Stats'),
    'C20': (props_mirror.run_scenario, 'Trace_Mirror'),
}


def replay(prop, path):
    """Re-run the scenario of a replay file against pgcat built from /repo and validate its trace again.
    Exit 1 (with a VIOLATION line naming the same file) if a monitor fires again, 0 if not, 2 on tool errors.
    For properties without a single-scenario runner the file is printed."""
    from . import core, tlc
    with open(path) as f:
        obj = json.load(f)
    item = obj.get('replay')
    if prop in ('C01', 'C02', 'C04', 'C10') and isinstance(item, dict) and 'scenario' in item:
        return replay_pool(prop, path, obj, item['scenario'])
    if isinstance(item, dict) and 'id' not in item and isinstance(item.get('item'), dict):
        item = item['item']
    if prop not in REPLAYERS or not isinstance(item, dict) or 'id' not in item:
        print(json.dumps(obj, indent=1)[:4000])
        return 0
    run, module = REPLAYERS[prop]
    core.build_pgcat()
    r = run(item)
    if 'error' in r:
        print('TOOL-ERROR: scenario crashed: ' + r['error'][-800:])
        return 2
    res, info = tlc.validate_trace(module, module + '.cfg', r['recs'])
    if info['matched'] != info['total']:
        print('TOOL-ERROR: %s consumed %s of %s records' % (module, info['matched'], info['total']))
        return 2
    for n in r.get('notes', [])[:6]:
        print('note: %s' % n)
    if not info['viol'] and r.get('alive', True):
        print('replay of %s: no monitor fired (recorded signature: %s)' % (path, obj.get('sig')))
        return 0
    for vi in info['viol']:
        print('VIOLATION property=%s replay=%s' % (prop, path))
        print('  kind: %s' % vi['kind'])
        print('  detail: %s' % json.dumps(vi['detail'], default=repr)[:600])
    if not r.get('alive', True):
        print('VIOLATION property=%s replay=%s' % (prop, path))
        print('  kind: pgcat_died')
    return 1


def replay_pool(prop, path, obj, sc):
    """Pool properties: run the history again and validate the hook-side and the server-side trace."""
    import os
    from . import core, tlc, poolcore
    core.build_pgcat()
    r = poolcore.run_scenario(sc)
    if 'error' in r:
        print('TOOL-ERROR: scenario crashed: ' + r['error'][-800:])
        return 2
    fired = []
    for key in ('hook_trace', 'backend_trace'):
        t = r.get(key)
        if not t:
            continue
        os.environ['NC'] = str(t['nc'])
        os.environ['NS'] = str(t['ns'])
        res, info = tlc.validate_trace('Trace_PoolCore', 'Trace_PoolCore.cfg', t['recs'])
        if info['matched'] != info['total']:
            print('TOOL-ERROR: Trace_PoolCore(%s) consumed %s of %s records' % (key, info['matched'], info['total']))
            return 2
        fired += [(key, vi) for vi in info['viol']]
    for o in r.get('obs', []):
        print('observation: %s' % json.dumps(o, default=repr)[:300])
    if not fired and r.get('alive', True):
        print('replay of %s: no monitor fired (recorded signature: %s); client-side observations are listed above'
              % (path, obj.get('sig')))
        return 0
    for key, vi in fired:
        print('VIOLATION property=%s replay=%s' % (prop, path))
        print('  kind: %s (%s)' % (vi['kind'], key))
        print('  detail: %s' % json.dumps(vi['detail'], default=repr)[:600])
    return 1
