"""Property id -> check function."""
import json

from . import props_pool, props_router, props_plugins, props_relay, props_pause, props_shutdown, props_reload, props_prepared, props_params, props_auth, props_config, props_hostile, props_failover, props_stats, props_mirror

CHECKS = {
    'C01': props_pool.check,
    'C02': props_pool.check,
    'C04': props_pool.check,
    'C10': props_pool.check,
    'C05': props_router.check_c05,
    'C13': props_router.check_c13,
    'C06': props_router.check_c06,
    'C19': props_plugins.check_c19,
    'C03': props_relay.check_c03,
    'C16': props_pause.check_c16,
    'C17': props_shutdown.check_c17,
    'C14': props_reload.check_c14,
    'C08': props_prepared.check_c08,
    'C12': props_params.check_c12,
    'C09': props_auth.check_c09,
    'C15': props_config.check_c15,
    'C11': props_hostile.check_c11,
    'C07': props_failover.check_c07,
    'C18': props_stats.check_c18,
    'C20': props_mirror.check_c20,
}


def replay(prop, path):
    with open(path) as f:
        obj = json.load(f)
    print(json.dumps(obj, indent=1)[:4000])
    return 0
