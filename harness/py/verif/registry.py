"""Property id -> check function."""
import json

from . import props_pool

CHECKS = {
    'C01': props_pool.check,
    'C02': props_pool.check,
    'C04': props_pool.check,
    'C10': props_pool.check,
}


def replay(prop, path):
    with open(path) as f:
        obj = json.load(f)
    print(json.dumps(obj, indent=1)[:4000])
    return 0
