"""Check C19: plugin verdicts (table_access, intercept) are enforced before anything reaches a server."""
import json
import os
import random

from . import core, tlc, routing
from .props_router import run_sessions, spell_command

BLOCKED = 'secret'
# identifier spellings PostgreSQL resolves to table "secret" (search_path public)
IDENT_SPELLINGS = {
    'plain': 'secret', 'upper': 'SECRET', 'mixed': 'SeCret', 'quoted': '"secret"', 'schema': 'public.secret',
    'schema_quoted': 'public."secret"', 'schema_upper': 'PUBLIC.SECRET', 'both_quoted': '"public"."secret"',
}
# statement shapes that mention a relation at some position
POSITIONS = {
    'from': 'SELECT * FROM {T}',
    'from_alias': 'SELECT s.a FROM {T} AS s WHERE s.a > 1',
    'join': 'SELECT * FROM t JOIN {T} ON t.id = {T}.id',
    'subquery': 'SELECT * FROM t WHERE a IN (SELECT a FROM {T})',
    'scalar_subquery': 'SELECT (SELECT count(*) FROM {T}) AS c',
    'cte': 'WITH x AS (SELECT * FROM {T}) SELECT * FROM x',
    'insert_target': 'INSERT INTO {T} VALUES (1)',
    'insert_select': 'INSERT INTO t SELECT * FROM {T}',
    'update_target': 'UPDATE {T} SET a = 1',
    'update_from': 'UPDATE t SET a = 1 FROM {T} WHERE t.id = {T}.id',
    'delete_target': 'DELETE FROM {T} WHERE a = 1',
    'delete_using': 'DELETE FROM t USING {T} WHERE t.id = {T}.id',
    'copy_to': 'COPY {T} TO STDOUT',
    'drop': 'DROP TABLE {T}',
    'truncate': 'TRUNCATE {T}',
    'alter': 'ALTER TABLE {T} ADD COLUMN z int',
    'union': 'SELECT a FROM t UNION SELECT a FROM {T}',
    'lateral_join': 'SELECT * FROM t LEFT JOIN {T} ON true',
}
NEUTRAL = ['SELECT 1', 'SELECT * FROM t WHERE a = 1', 'INSERT INTO t VALUES (1)', 'UPDATE t SET a = 2',
           'SELECT * FROM secrets', 'SELECT secret FROM t', "SELECT 'secret'", 'SELECT * FROM t AS secret_alias',
           'SELECT * FROM "SECRET"']
INTERCEPT_SQL = ['select current_database() as a, current_schemas(false) as b',
                 'SELECT current_database() AS a, current_schemas(false) AS b',
                 'select  current_database()  as a ,  current_schemas( false ) as b']
INTERCEPT_RULE = {'query': 'select current_database() as a, current_schemas(false) as b',
                  'schema': [['a', 'text'], ['b', 'text']], 'result': [['${DATABASE}', '{public}']]}


def plugin_cfg(on):
    cfg = {'default_role': 'any', 'parser': True, 'rwsplit': False, 'primary_reads': True}
    if on:
        cfg['plugins'] = {'table_access': {'enabled': True, 'tables': [BLOCKED, 'other_secret']},
                          'intercept': {'enabled': True, 'queries': {'0': INTERCEPT_RULE}}}
    else:
        cfg['plugins'] = {'table_access': {'enabled': False, 'tables': [BLOCKED]},
                          'intercept': {'enabled': False, 'queries': {'0': INTERCEPT_RULE}}}
    return cfg


def concretise(rng, kinds, force=None):
    """Statement kinds -> (sql list, pos, spelling)."""
    sqls = []
    pos = spelling = ''
    for k in kinds:
        if k == 'neutral':
            sqls.append(rng.choice(NEUTRAL))
        elif k == 'intercept':
            sqls.append(rng.choice(INTERCEPT_SQL))
        else:
            if force:
                pos, spelling = force
            else:
                pos = rng.choice(sorted(POSITIONS))
                spelling = rng.choice(sorted(IDENT_SPELLINGS))
            sqls.append(POSITIONS[pos].replace('{T}', IDENT_SPELLINGS[spelling]))
    return sqls, pos, spelling


def build_session(rng, idx, abstract, on, force=None):
    steps, meta = [], []
    for st in abstract:
        op = st['op']
        if op == 'set_role':
            text = spell_command(rng, 'set_role', st['arg'])
            steps.append({'kind': 'q', 'sql': text, 'tag': False})
            meta.append({'m': 'set_role', 'arg': st['arg']})
        elif op in ('begin', 'commit'):
            steps.append({'kind': 'q', 'sql': op.upper()})
            meta.append({'m': op})
        elif op == 'query':
            sqls, pos, sp = concretise(rng, st['kinds'], force)
            steps.append({'kind': 'q', 'sql': '; '.join(sqls)})
            meta.append({'m': 'msg', 'proto': 'simple', 'kinds': list(st['kinds']), 'sql': '; '.join(sqls), 'pos': pos, 'spelling': sp})
        elif op == 'bind':
            # Bind of the name the last named Parse used: no Parse, no plugin verdict - and still nothing refused may run
            steps.append({'kind': 'batch', 'parts': [{'bind_only': 'nm%d' % idx}]})
            meta.append({'m': 'bind', 'kinds': list(st['kinds'])})
        elif op == 'batch' and st.get('arg') == 'named':
            sqls, pos, sp = concretise(rng, st['kinds'], force)
            steps.append({'kind': 'batch', 'parts': [{'sql': sqls[0], 'name': 'nm%d' % idx, 'run': False}]})
            meta.append({'m': 'msg', 'proto': 'batch', 'kinds': list(st['kinds']), 'sql': sqls[0], 'pos': pos, 'spelling': sp})
        elif op == 'batch':
            sqls, pos, sp = concretise(rng, st['kinds'], force)
            parts = [{'sql': q, 'name': ''} for q in sqls]
            if len(parts) > 1:
                # distinct statement names so both Parses are kept; only the last is executed unnamed
                for i, p in enumerate(parts):
                    p['name'] = 'st%d_%d' % (idx, i)
            flush = st.get('arg') == 'flush'
            steps.append({'kind': 'batch', 'parts': parts, 'flush': flush})
            meta.append({'m': 'msg', 'proto': 'batch_flush' if flush else 'batch', 'kinds': list(st['kinds']), 'sql': ' | '.join(sqls),
                         'pos': pos, 'spelling': sp})
    cfg = plugin_cfg(on)
    if any(st['op'] == 'bind' or st.get('arg') == 'named' for st in abstract):
        cfg['prepared_statements_cache_size'] = 10
    return {'id': idx, 'cfg': cfg, 'steps': steps, 'meta': meta, 'abstract': abstract, 'on': on}


def known_verdicts(sessions, results):
    """Whether pgcat's SQL parser accepts a message depends on its text only: text -> verdict, learnt from every message
    of this run on which the parser ran (qr_parse hook)."""
    known = {}
    for s, r in zip(sessions, results):
        if r is None or not r.get('obs'):
            continue
        msgs = list(r.get('msgs', []))
        mi = 0
        in_tx = False
        for st, meta, o in zip(s['steps'], s['meta'], r['obs']):
            nmsg = 0
            if not in_tx:
                nmsg = 1 if st['kind'] == 'q' else sum((2 if p.get('bind_only') else 3 if p.get('run', True) else 1) for p in st['parts']) + (2 if st.get('flush') else 1)
            mine = msgs[mi:mi + nmsg]
            mi += nmsg
            if meta['m'] == 'msg' and not in_tx:
                verdicts = [v for m in mine for v in m.get('parse', [])]
                if verdicts:
                    known[(meta['proto'], meta['sql'])] = all(verdicts)
                    if len(meta['kinds']) == 1:
                        known[('stmt', meta['sql'])] = all(verdicts)
            in_tx = o.get('status') in ('T', 'E')
    return known


def build_trace(sessions, results):
    recs = []
    known = known_verdicts(sessions, results)
    for s, r in zip(sessions, results):
        if r is None or not r.get('obs'):
            continue
        recs.append({'ev': 'reset', 'sc': s['id'], 'plugins_on': s['on']})
        msgs = list(r.get('msgs', []))
        mi = 0
        in_tx = False
        for st, meta, o in zip(s['steps'], s['meta'], r['obs']):
            nmsg = 0
            if not in_tx:
                nmsg = 1 if st['kind'] == 'q' else sum((2 if p.get('bind_only') else 3 if p.get('run', True) else 1) for p in st['parts']) + (2 if st.get('flush') else 1)
            mine = msgs[mi:mi + nmsg]
            mi += nmsg
            if meta['m'] == 'set_role':
                recs.append({'ev': 'set_role', 'arg': meta['arg']})
            elif meta['m'] in ('begin', 'commit'):
                recs.append({'ev': meta['m']})
            elif meta['m'] == 'bind':
                by = o.get('landed_by_serial', {})
                reached = any(bool(by.get(str(n2)) or by.get(n2)) for n2 in o.get('serials', []) if n2 is not None)
                recs.append({'ev': 'bind', 'kinds': meta['kinds'], 'reached': reached, 'reply': (o.get('errors') or [''])[0][:80]})
                if any('does not exist' in e for e in o.get('errors', [])):
                    # the pooler answers a Bind of a name it does not know with an error and closes the connection
                    break
            else:
                verdicts = [v for m in mine for v in m.get('parse', [])]
                # inside a transaction pgcat parses again in the inner loop; verdicts are not attributed there,
                # so the message counts as parsed when every statement is one of our parseable spellings
                parsed = (bool(verdicts) and all(verdicts)) if not in_tx else True
                if not in_tx and not verdicts:
                    # the parser did not run on this message (a session override): acceptance is a property of the text
                    if (meta['proto'], meta['sql']) in known:
                        parsed = known[(meta['proto'], meta['sql'])]
                    else:
                        sep = '; ' if meta['proto'] == 'simple' else ' | '
                        parts = meta['sql'].split(sep)
                        parsed = all(known.get(('stmt', x), False) for x in parts)
                errs = o.get('errors', [])
                denied = any('permission for table' in e for e in errs)
                rows = o.get('rows', [])
                serials = o.get('serials', [])
                by = o.get('landed_by_serial', {})
                reached = [bool(by.get(str(n)) or by.get(n)) for n in serials]
                intercepted = (not denied) and o.get('cols') == ['a', 'b'] and not any(reached)
                rows_ok = rows == [[s['pool_db'], '{public}']] if intercepted else False
                reply = 'denied' if denied else ('intercepted' if intercepted else ('rows' if o.get('end') == 'Z' else 'none'))
                recs.append({'ev': 'msg', 'proto': meta['proto'], 'kinds': meta['kinds'], 'parsed': parsed, 'reply': reply,
                             'reached': reached if reached else [False], 'rows_ok': rows_ok, 'pos': meta['pos'],
                             'spelling': meta['spelling'], 'sql': meta['sql'][:160]})
            in_tx = o.get('status') in ('T', 'E')
    return recs


def check_c19(prop, tier, seed):
    v = core.Verdict(prop, tier, seed)
    rng = random.Random(seed)
    v.assumptions = [
        'identifier spellings in props_plugins.IDENT_SPELLINGS are the ones PostgreSQL resolves to the listed table',
        'a message counts as accepted by the pooler\'s parser iff the qr_parse hook says so',
        'mixed messages (an intercept match next to other statements) are unspecified',
    ]
    core.build_pgcat()
    for name, cfg, must in (('design', 'MC_Plugins_design.cfg', True), ('off', 'MC_Plugins_off.cfg', True),
                            ('asbuilt', 'MC_Plugins_asbuilt.cfg', False)):
        res = tlc.run_tlc('Plugins', cfg, workers=4, coverage=(name == 'design'))
        v.add_mc('mc:' + name, res)
        if must and res.rc != 0:
            v.tool_error('Plugins %s: rc=%d %s' % (cfg, res.rc, res.errors()[:2]))
        if not must and not res.invariant_violated:
            v.tool_error('Plugins asbuilt: expected a violation with deviations enabled')
    depth = 3
    with open(os.path.join(tlc.SPEC, 'Gen_Plugins.cfg'), 'w') as f:
        f.write('SPECIFICATION GSpec\nCONSTANTS\n  PluginsOn = TRUE\n  Dev = {}\n  MaxMsgs = 10\n  Depth = %d\nINVARIANT Emit\n' % depth)
    res = tlc.run_tlc('Gen_Plugins', 'Gen_Plugins.cfg', workers=8)
    if res.rc != 0:
        v.tool_error('Gen_Plugins rc=%d' % res.rc)
        return v.finish()
    v.add_mc('gen:Gen_Plugins', res)
    scen = [o['steps'] for t, o in res.prints if t == 'SCENARIO']
    v.extra['sessions_generated'] = len(scen)
    interesting = [s for s in scen if any('blocked' in st['kinds'] or 'intercept' in st['kinds'] for st in s)]
    rng.shuffle(interesting)
    n = {'quick': 1500, 'thorough': 20000}[tier]
    sessions = []
    idx = 0
    # every position x spelling once, on its own (simple and batch), plugins on
    for pos in sorted(POSITIONS):
        for sp in sorted(IDENT_SPELLINGS):
            for op, arg in (('query', ''), ('batch', ''), ('batch', 'flush')):
                idx += 1
                sessions.append(build_session(random.Random(seed * 17 + idx), idx,
                                              [{'op': op, 'arg': arg, 'kinds': ['blocked']}], True, force=(pos, sp)))
    for s in interesting[:n]:
        idx += 1
        on = (idx % 7) != 0
        sessions.append(build_session(random.Random(seed * 17 + idx), idx, s, on))
    results = run_sessions_with_db(v, sessions)
    recs = build_trace(sessions, results)
    v.cov['evaluations'] = len(sessions)
    if not recs:
        v.tool_error('no records')
        return v.finish()
    res, info = tlc.validate_trace('Trace_Plugins', 'Trace_Plugins.cfg', recs, timeout=1500)
    v.add_mc('trace:c19', res)
    if info['matched'] != info['total']:
        v.tool_error('Trace_Plugins consumed %s of %s: %s' % (info['matched'], info['total'], res.errors()[:2] or res.out[-500:]))
    v.cov['traces_validated_against_impl'] = sum(1 for r in recs if r['ev'] == 'reset') if not v.tool_errors else 0
    byid = {s['id']: s for s in sessions}
    for r in recs:
        if r['ev'] == 'msg' and 'blocked' in r['kinds']:
            v.nontrivial_case('%s/%s/%s/%d' % (r['pos'], r['spelling'], r['proto'], len(r['kinds'])))
    for vi in info['viol']:
        d = vi['detail']
        s = byid[vi['sc']]
        if vi['kind'] in ('blocked_reached_server', 'blocked_not_denied'):
            multi = 'multi' if len(d['kinds']) > 1 else 'single'
            sel = d['roleSel'] if d['roleSel'] in ('primary', 'replica', 'any') else 'parser_on'
            sig = '%s/pos=%s/spelling=%s/%s/%s/sel=%s' % (vi['kind'], d['pos'], d['spelling'], d['proto'], multi, sel)
        elif vi['kind'] == 'intercept_wrong':
            sel = d['roleSel'] if d['roleSel'] in ('primary', 'replica', 'any') else 'parser_on'
            sig = 'intercept_wrong/%s/sel=%s' % (d['proto'], sel)
        else:
            sig = vi['kind']
        v.violation(sig, d, replay={'session': {'on': s['on'], 'abstract': s['abstract'],
                                                'sql': [m.get('sql') or m.get('arg') or m['m'] for m in s['meta']]}})
    # negative control
    for i, r in enumerate(recs):
        if r['ev'] == 'msg' and r['kinds'] == ['blocked'] and r['reply'] == 'denied' and r['parsed']:
            start = i
            while recs[start]['ev'] != 'reset':
                start -= 1
            seg = [dict(x) for x in recs[start:i + 1]]
            if not seg[0]['plugins_on']:
                continue
            seg[-1]['reached'] = [True]
            res2, info2 = tlc.validate_trace('Trace_Plugins', 'Trace_Plugins.cfg', seg)
            if any(x['kind'] == 'blocked_reached_server' for x in info2['viol']):
                v.extra['negative_control'] = 'marked a denied statement as seen by a backend: rejected'
            else:
                v.tool_error('negative control failed')
            break
    else:
        v.tool_error('negative control: no denied statement in the trace (vacuous)')
    for s in sessions[:1] + sessions[-2:]:
        v.add_sample({'plugins_on': s['on'], 'sql': [m.get('sql') or m.get('arg') or m['m'] for m in s['meta']]})
    v.cov['rule'] = ('%d positions x %d identifier spellings x {simple, Parse..Sync}, each alone, plus a seeded subset of all '
                     'sessions of %d steps over {SET SERVER ROLE, BEGIN, COMMIT, simple query / batch of <= 2 statement kinds} '
                     'enumerated by TLC from Gen_Plugins, with plugins on (6/7) and off (1/7); distinct = '
                     'position/spelling/protocol/message-length combinations that carried a blocked reference'
                     % (len(POSITIONS), len(IDENT_SPELLINGS), depth))
    return v.finish()


def run_sessions_with_db(v, sessions):
    """run_sessions, plus the pool name each session connected to (needed for ${DATABASE})."""
    sessions.sort(key=lambda s: routing.cfg_key(s['cfg']))
    per = max(20, len(sessions) // 28 + 1)
    # pool names are assigned per batch in order of first appearance of a config
    for i in range(0, len(sessions), per):
        names = {}
        for s in sessions[i:i + per]:
            k = routing.cfg_key(s['cfg'])
            if k not in names:
                names[k] = 'p%d' % len(names)
            s['pool_db'] = names[k]
    return run_sessions(v, sessions, per_batch=per)
