"""Check C14: live reload is safe."""
import json
import os
import random
import signal
import time

from . import core, tlc
from . import pgwire as W
from .client import Client
from .world import World, simple_pool, render_config, default_general


def file_text(w, kind, ports):
    pools = {'db2': simple_pool([['127.0.0.1', ports['b2'], 'primary']], pool_size=2)}
    if kind == 'A':
        pools['db1'] = simple_pool([['127.0.0.1', ports['b1'], 'primary'], ['127.0.0.1', ports['b4'], 'replica']], pool_size=2)
    elif kind == 'R':
        pools['db1'] = simple_pool([['127.0.0.1', ports['b1'], 'replica'], ['127.0.0.1', ports['b4'], 'primary']], pool_size=2)
    elif kind == 'P':
        pools['db1'] = simple_pool([['127.0.0.1', ports['b1'], 'primary'], ['127.0.0.1', ports['b4'], 'replica']], pool_size=2)
        pools['db1']['query_parser_enabled'] = True
        pools['db1']['plugins'] = {'table_access': {'enabled': True, 'tables': ['guarded']}}
    elif kind == 'unreachable':
        pools['db1'] = simple_pool([['127.0.0.1', ports['dead'], 'primary']], pool_size=2, user={'min_pool_size': 1})
    elif kind == 'B':
        pools['db1'] = simple_pool([['127.0.0.1', ports['b3'], 'primary']], pool_size=2)
    elif kind == 'semantic_error':
        pools['db1'] = simple_pool([['127.0.0.1', ports['b3'], 'primary']], pool_size=2)
        pools['db1']['default_role'] = 'sometimes'
    if 'db1' in pools:
        pools['db1']['default_role'] = pools['db1'].get('default_role', 'primary')
    text = render_config(default_general(w.port, validate_config=True), pools)
    if kind == 'syntax_error':
        text = text.replace('[pools.db2]', '[pools.db2\npool_mode = = "transaction"', 1)
    return text


def run_scenario(item):
    rng = random.Random(item['seed'])
    out = {'id': item['id'], 'recs': [{'ev': 'reset', 'sc': item['id']}], 'notes': []}
    recs = out['recs']
    with World('rl') as w:
        b = {n: w.backend(n) for n in ('b1', 'b2', 'b3', 'b4')}
        ports = {n: x.port for n, x in b.items()}
        ports['dead'] = W.free_port()
        for attempt in range(4):
            # (the port is part of the file: when another process took it first, take another one and render again)
            w.port = W.free_port()
            try:
                w.start(text=file_text(w, 'A', ports), port=w.port)
                break
            except RuntimeError as e:
                if attempt == 3 or 'AddrInUse' not in str(e):
                    raise
        clients = {}
        txconn = {}
        parked = []
        ctl = Client(w.port, db='db2', name='CTL', timeout=4.0)
        ctl.query('SELECT 0')

        def client(n):
            c = clients.get(n)
            if c is None or c.sock is None or c.dead:
                try:
                    c = Client(w.port, db='db1', name=n, timeout=4.0)
                    c.dead = c.startup.end != 'Z'
                except OSError:
                    c = None
                clients[n] = c
            return c

        def landing(rep):
            e = rep.echoes()
            if rep.end == 'Z' and e:
                return e[0]['be'], (e[0]['be'], e[0]['conn'])
            return 'none', None

        for st in item['steps']:
            op = st['op']
            if op == 'write':
                w.write_config(file_text(w, st['f'], ports))
                recs.append({'ev': 'write', 'f': st['f']})
            elif op == 'reload':
                hmark = len(w.hooks())
                lmark = w.log.mark()
                method = rng.choice(['admin', 'admin', 'sighup'])
                if method == 'admin':
                    try:
                        rep = w.admin_cmd('RELOAD', timeout=6.0)
                    except OSError:
                        rep = None
                else:
                    w.signal(signal.SIGHUP)
                # completion: config parsed (or rejected), and pools stored when something changed
                deadline = time.time() + 4.0
                while time.time() < deadline:
                    hs = w.hooks()[hmark:]
                    if any(h['ev'] == 'reload' and not h['ok'] for h in hs):
                        break
                    if any(h['ev'] == 'pools_stored' for h in hs):
                        break
                    if any(h['ev'] == 'config_stored' for h in hs) and not any(h['ev'] == 'reload' for h in hs) and method == 'admin':
                        break      # unchanged: the admin reply is the completion
                    if any(h['ev'] == 'config_stored' for h in hs) and method == 'sighup' and time.time() > deadline - 3.7:
                        if not any(h['ev'] == 'reload' for h in hs):
                            break
                    time.sleep(0.01)
                time.sleep(0.05)
                hs = w.hooks()[hmark:]
                evs = w.log.snapshot()[lmark:]
                recs.append({'ev': 'reload', 'method': method,
                             'created': any(h['ev'] == 'pool_created' and h['pool'] == 'db1' for h in hs),
                             'ctl_created': any(h['ev'] == 'pool_created' and h['pool'] == 'db2' for h in hs),
                             'config_stored': any(h['ev'] == 'config_stored' for h in hs),
                             'ctl_closed': any(e.get('be') == 'b2' and e['ev'] in ('eof', 'terminate', 'sockerr') for e in evs),
                             'opened': sorted({e['be'] for e in evs if e['ev'] == 'connect'})})
                if not w.alive():
                    out['notes'].append('pgcat died during reload')
                    break
            elif op == 'pause':
                w.admin_cmd('PAUSE db1,u', timeout=4.0)
            elif op == 'park':
                # a new transaction while PAUSE is in force: the first statement is sent, no reply is expected yet
                c = client(st['c'])
                if c is not None and not c.dead:
                    c.send(W.Q('BEGIN ' + c.tag()))
                    parked.append(st['c'])
                    time.sleep(0.05)
            elif op == 'resume':
                w.admin_cmd('RESUME db1,u', timeout=4.0)
                for n in parked:
                    c = clients.get(n)
                    rep = c.read_reply(timeout=4.0)
                    if rep.end != 'Z' or rep.errors:
                        recs.append({'ev': 'txstart', 'c': n, 'landed': 'none', 'reply': ('held by PAUSE, after RESUME: ' + rep.brief())[:100]})
                        txconn[n] = None
                        if rep.end != 'Z':
                            c.dead = True
                        continue
                    rep = c.query('SELECT 1')
                    be, conn = landing(rep)
                    recs.append({'ev': 'txstart', 'c': n, 'landed': be, 'reply': rep.brief()[:100]})
                    txconn[n] = conn
                parked = []
            elif op == 'probe':
                c = client(st['c'])
                if c is None or c.dead:
                    recs.append({'ev': 'probe', 'c': st['c'], 'denied': False, 'landed': 'none', 'reply': 'connect refused'})
                    continue
                rep = c.query('SELECT * FROM guarded')
                be, conn = landing(rep)
                denied = any('permission for table' in (e.get('M') or '') for e in rep.errors)
                recs.append({'ev': 'probe', 'c': st['c'], 'denied': denied, 'landed': be, 'reply': rep.brief()[:100]})
                if rep.end != 'Z':
                    c.dead = True
            elif op == 'txstart':
                c = client(st['c'])
                if c is None or c.dead:
                    recs.append({'ev': 'txstart', 'c': st['c'], 'landed': 'none', 'reply': 'connect refused'})
                    txconn[st['c']] = None
                    continue
                rep = c.query('BEGIN')
                if rep.end != 'Z' or rep.errors:
                    recs.append({'ev': 'txstart', 'c': st['c'], 'landed': 'none', 'reply': rep.brief()[:100]})
                    txconn[st['c']] = None
                    if rep.end != 'Z':
                        c.dead = True
                    continue
                rep = c.query('SELECT 1')
                be, conn = landing(rep)
                recs.append({'ev': 'txstart', 'c': st['c'], 'landed': be, 'reply': rep.brief()[:100]})
                txconn[st['c']] = conn
            elif op == 'txstep':
                c = clients.get(st['c'])
                if c is None or txconn.get(st['c']) is None:
                    recs.append({'ev': 'txstep', 'c': st['c'], 'ok': True, 'same_conn': True, 'landed': 'none', 'reply': 'skipped'})
                    continue
                rep = c.query('SELECT 2')
                be, conn = landing(rep)
                recs.append({'ev': 'txstep', 'c': st['c'], 'ok': rep.end == 'Z' and not rep.errors,
                             'same_conn': conn == txconn[st['c']], 'landed': be, 'reply': rep.brief()[:100]})
            elif op == 'txend':
                c = clients.get(st['c'])
                if c is None or txconn.get(st['c']) is None:
                    recs.append({'ev': 'txend', 'c': st['c'], 'ok': True, 'same_conn': True, 'reply': 'skipped'})
                    txconn[st['c']] = None
                    continue
                mark = w.log.mark()
                rep = c.query('COMMIT')
                evs = [e for e in w.log.snapshot()[mark:] if e['ev'] == 'exec' and e.get('client') == st['c']]
                same = bool(evs) and (evs[0]['be'], evs[0]['conn']) == txconn[st['c']]
                recs.append({'ev': 'txend', 'c': st['c'], 'ok': rep.end == 'Z' and rep.tags == ['COMMIT'], 'same_conn': same,
                             'reply': rep.brief()[:100]})
                txconn[st['c']] = None
            # the control pool keeps working on its one connection throughout
            if rng.random() < 0.4:
                r = ctl.query('SELECT 9')
                if r.end != 'Z' or not r.echoes() or r.echoes()[0]['be'] != 'b2':
                    out['notes'].append('control pool disturbed: ' + r.brief()[:80])
        out['alive'] = w.alive()
        for c in clients.values():
            if c:
                c.close()
        ctl.close()
    return out


def check_c14(prop, tier, seed):
    v = core.Verdict(prop, tier, seed)
    rng = random.Random(seed)
    v.assumptions = [
        'one pool under test (definitions A: b1 primary + b4 replica, R: the same servers with roles swapped, B: server b3, absent; default_role primary) and one untouched control pool; '
        'invalid files: TOML syntax error, semantic error (unknown default_role)',
        'lock-step: a reload counts as completed when its reply (admin) or its last hook event (SIGHUP) was seen',
        'closing of the connections of a replaced pool is lazy in pgcat and therefore not required',
    ]
    core.build_pgcat()
    res = tlc.run_tlc('Reload', 'MC_Reload.cfg', workers=8, coverage=True)
    v.add_mc('mc:design', res)
    if res.rc != 0:
        v.tool_error('Reload design rc=%d %s' % (res.rc, res.errors()[:2]))
    for d in ('invalid_file_applied', 'tx_follows_reload', 'removed_pool_falls_back', 'parked_tx_uses_old_pool'):
        r2 = tlc.run_tlc('Reload', 'MC_Reload_dev_%s.cfg' % d, workers=8)
        v.add_mc('mc:dev:' + d, r2)
        if not r2.invariant_violated:
            v.tool_error('Reload deviation %s not detected by the model' % d)
        else:
            v.extra.setdefault('model_negative_control', []).append('%s violates %s' % (d, r2.invariant_violated))
    # any number of file edits, reloads, PAUSE/RESUME and transactions: an invariant that implies the five model invariants
    # is inductive for the design (Apalache, symbolic); it is not when an invalid file still replaces CONFIG
    for name, cinit, init, inv, length, expect in (('initial', 'ConstInit', 'Init', 'IndInv', 0, 'ok'), ('step', 'ConstInit', 'IndInit', 'IndInv', 1, 'ok'),
                                                   ('implies_properties', 'ConstInit', 'IndInit', 'Props', 0, 'ok'),
                                                   ('negative_control_invalid_file_applied', 'ConstInitInvalidApplied', 'IndInit', 'IndInv', 1, 'violated')):
        got = tlc.run_apalache('ReloadApa', cinit, init, inv, length, timeout=900)
        v.extra.setdefault('apalache_inductive_invariant', []).append({'check': name, 'result': got})
        if got != expect:
            v.tool_error('Apalache %s: expected %s, got %s' % (name, expect, got))
    # random histories (the simulator also evaluates Emit on every candidate last step, so each behaviour yields several)
    res = tlc.run_tlc('Gen_Reload', 'Gen_Reload.cfg', workers=1, simulate={'quick': 8000, 'thorough': 60000}[tier], depth=40,
                      seed=seed, timeout=900)
    if res.rc != 0:
        v.tool_error('Gen_Reload rc=%d' % res.rc)
        return v.finish()
    v.add_mc('gen', res)
    seen = set()
    scen = []
    for t, o in res.prints:
        if t == 'SCENARIO':
            k = json.dumps(o)
            if k not in seen:
                seen.add(k)
                scen.append(o)
    v.extra['histories_generated'] = len(scen)

    def feat(s):
        f = []
        cur = 'A'
        eff = 'A'
        held = set()
        intx = set()
        for x in s:
            if x['op'] == 'write':
                cur = x['f']
            elif x['op'] == 'reload':
                f.append('reload:%s:%s' % (cur, 'intx' if intx else 'idle'))
                if eff == 'unreachable' and cur in ('A', 'B', 'R', 'P'):
                    f.append('reload_after_failed_build')
                if cur in ('A', 'B', 'R', 'P', 'absent', 'unreachable') and cur != eff:
                    eff = cur
                    if held:
                        f.append('held_across_change')
            elif x['op'] == 'txstart':
                intx.add(x['c'])
                f.append('txstart_after' if any(y.startswith('reload') for y in f) else 'txstart')
            elif x['op'] == 'txstep' and x['c'] in intx and any(y.startswith('reload') for y in f):
                f.append('step_after_reload')
            elif x['op'] == 'txend':
                intx.discard(x['c'])
            elif x['op'] == 'probe':
                f.append('probe:%s' % eff)
            elif x['op'] == 'park':
                f.append('park')
                held.add(x['c'])
            elif x['op'] == 'resume':
                if 'park' in f and any(y.startswith('reload') for y in f):
                    f.append('held_across_reload')
                held = set()
        return tuple(sorted(set(f)))
    useful = [s for s in scen if any(x['op'] == 'reload' for x in s) and any(x['op'] in ('txstart', 'park', 'probe') for x in s)
              and (not any(x['op'] == 'park' for x in s) or any(x['op'] == 'resume' for x in s))]
    byf = {}
    for s in useful:
        byf.setdefault(feat(s), []).append(s)
    keys = sorted(byf)
    rng.shuffle(keys)
    for k in keys:
        rng.shuffle(byf[k])
    n = {'quick': 260, 'thorough': 4000}[tier]
    # a quota for the rarest interplay: a transaction held by PAUSE while a reload changes its pool
    special = [s2 for k in keys if 'held_across_change' in k for s2 in byf[k]]
    rng.shuffle(special)
    chosen = special[:n // 6]
    # ... and for a working reload after one whose pools could not be built, followed by a transaction
    special2 = [s2 for k in keys if 'reload_after_failed_build' in k and any(y in k for y in ('txstart_after', 'probe:A', 'probe:B', 'probe:R', 'probe:P'))
                for s2 in byf[k]]
    rng.shuffle(special2)
    chosen += [s2 for s2 in special2 if s2 not in chosen][:n // 8]
    picked = {json.dumps(s2) for s2 in chosen}
    for k in keys:
        byf[k] = [s2 for s2 in byf[k] if json.dumps(s2) not in picked]
    i = 0
    while len(chosen) < n:
        progressed = False
        for k in keys:
            if i < len(byf[k]):
                chosen.append(byf[k][i])
                progressed = True
                if len(chosen) >= n:
                    break
        if not progressed:
            break
        i += 1
    items = [{'id': j + 1, 'steps': s, 'seed': seed * 17 + j} for j, s in enumerate(chosen)]
    results = core.run_parallel(run_scenario, items, workers=14)
    recs = []
    ok = []
    for it, r in zip(items, results):
        if 'error' in r:
            v.tool_error('reload scenario crashed: ' + r['error'][-500:])
            continue
        ok.append((it, r))
        recs += r['recs']
        v.nontrivial_case(json.dumps(feat(it['steps'])))
        if not r.get('alive', True):
            v.violation('pgcat_died', {'notes': r['notes']}, replay=it)
        for nt in r['notes']:
            if nt.startswith('control pool disturbed'):
                v.violation('control_pool_disturbed', {'note': nt}, replay=it)
    v.cov['evaluations'] = len(ok)
    res, info = tlc.validate_trace('Trace_Reload', 'Trace_Reload.cfg', recs, timeout=900)
    v.add_mc('trace', res)
    if info['matched'] != info['total']:
        v.tool_error('Trace_Reload consumed %s of %s: %s' % (info['matched'], info['total'], res.errors()[:2] or res.out[-500:]))
    else:
        v.cov['traces_validated_against_impl'] = len(ok)
    byid = {it['id']: it for it, r in ok}
    for vi in info['viol']:
        if vi['kind'] == 'control_pool_touched':
            # what closes a connection of the control pool during a reload window can also be the machine (seen once in 3915
            # histories under heavy load, not reproducible): a defect of the pooler shows again when the history is repeated
            r2 = run_scenario(byid[vi['sc']])
            if 'error' in r2:
                continue
            res3, info3 = tlc.validate_trace('Trace_Reload', 'Trace_Reload.cfg', r2['recs'])
            if not any(x['kind'] == 'control_pool_touched' for x in info3['viol']):
                v.extra.setdefault('not_confirmed_on_repetition', []).append({'kind': vi['kind'], 'scenario': vi['sc']})
                continue
        v.violation(vi['kind'], vi['detail'], replay=byid[vi['sc']])
    # negative control
    done = False
    for it, r in ok:
        idx = [i for i, x in enumerate(r['recs']) if x['ev'] == 'txstart' and x['landed'] == 'b1']
        if idx and not any(x['ev'] == 'write' and x['f'] == 'unreachable' for x in r['recs'][:idx[0]]):
            seg = [dict(x) for x in r['recs'][:idx[0] + 1]]
            seg[-1]['landed'] = 'b3'
            res2, info2 = tlc.validate_trace('Trace_Reload', 'Trace_Reload.cfg', seg)
            if any(x['kind'] in ('wrong_definition_used', 'removed_pool_served') for x in info2['viol']):
                v.extra['negative_control'] = 'moved one transaction to the other definition\'s server: rejected'
            else:
                v.tool_error('negative control failed')
            done = True
            break
    if not done:
        v.tool_error('negative control: no suitable trace')
    for it, r in ok[:2]:
        v.add_sample({'steps': [(x['op'], x['c'], x['f']) for x in it['steps']], 'trace': r['recs'][:8]})
    v.cov['rule'] = ('histories = all sequences of length 6 over {write file (A, B, absent, syntax error, semantic error), reload, '
                     'txstart/txstep/txend/probe of a guarded table/PAUSE-held starts of 2 clients} (tlc -simulate, seeded, Gen_Reload); those with a reload and a transaction are stratified '
                     'by (file at reload, transaction open or not, what follows) and replayed with RELOAD or SIGHUP; distinct = strata')
    return v.finish()
