"""Check C20: mirroring never affects the primary path, and mirrors receive only whole copies of what their own
server was sent."""
import json
import os
import random
import re
import time

from . import core, tlc
from . import pgwire as W
from .client import Client, Reply
from .world import World, simple_pool

# mirror -> server, and the order in which the mirrors are listed in the configuration file
TOPOS = {
    'split': {'target': {'m1': 's1', 'm2': 's2'}, 'order': ['m1', 'm2'], 'shards': 1},
    'swapped': {'target': {'m1': 's2', 'm2': 's1'}, 'order': ['m1', 'm2'], 'shards': 1},
    'same': {'target': {'m1': 's1', 'm2': 's1'}, 'order': ['m1', 'm2'], 'shards': 1},
    'replica_both': {'target': {'m1': 's2', 'm2': 's2'}, 'order': ['m2', 'm1'], 'shards': 1},
    'shards': {'target': {'m1': 's1', 'm2': 's2'}, 'order': ['m1', 'm2'], 'shards': 2},
    'shards_swapped': {'target': {'m1': 's2', 'm2': 's1'}, 'order': ['m1', 'm2'], 'shards': 2},
}
# the mock servers' result rows name the server connection that produced them: which of the pool's connections serves a
# request is not part of the reply a real server would give
SPID_RE = re.compile(rb'"(spid|conn)": \d+')


DEAD_RE = re.compile(rb'(error receiving data from server|Error reading|Error writing)[^\x00]*')


def norm_reply(rep):
    # (the text of the pooler's own error about a server connection that died says how the operating system reported it,
    # which is not the same from one run to the next)
    return [(t, DEAD_RE.sub(rb'\1', SPID_RE.sub(b'"x": 0', b)).decode('latin1')) for t, b in rep.msgs] + [('end', rep.end)]


def short(t, body):
    txt = body[:60].decode('latin1', 'replace').replace('\0', ' ')
    return '%s(%d) %s' % (t, len(body), txt[:48])


def run_world(item, with_mirrors):
    topo = TOPOS[item['topo']]
    out = {'ops': [], 'notes': [], 'streams': {}, 'chunks': {}}
    with World('mi') as w:
        two = topo['shards'] == 2
        s1 = w.backend('s1')
        s2 = w.backend('s2')
        s1.record_bytes = True
        s2.record_bytes = True
        mir = {}
        dead_port = None
        if with_mirrors:
            for m in ('m1', 'm2'):
                if item.get('dead') == m:
                    dead_port = W.free_port()
                    continue
                b = w.backend(m)
                b.record_bytes = True
                b.fault(item['init'][m])
                mir[m] = b
        srv_index = {'s1': 0, 's2': 1}

        def mirror_entry(m):
            port = mir[m].port if m in mir else dead_port
            idx = 0 if two else srv_index[topo['target'][m]]
            return {'host': '127.0.0.1', 'port': port, 'mirroring_target_index': idx}

        if two:
            shards = {'0': {'database': 'db', 'servers': [['127.0.0.1', s1.port, 'primary']]},
                      '1': {'database': 'db', 'servers': [['127.0.0.1', s2.port, 'primary']]}}
            if with_mirrors:
                for m in topo['order']:
                    sh = '0' if topo['target'][m] == 's1' else '1'
                    shards[sh].setdefault('mirrors', []).append(mirror_entry(m))
        else:
            shards = {'0': {'database': 'db', 'servers': [['127.0.0.1', s1.port, 'primary'], ['127.0.0.1', s2.port, 'replica']]}}
            if with_mirrors:
                shards['0']['mirrors'] = [mirror_entry(m) for m in topo['order']]
        pool = simple_pool(None, pool_size=item.get('pool_size', 1), shards=shards)
        pool['default_role'] = 'any'
        pool['primary_reads_enabled'] = True
        if item.get('prewarm'):
            # the pooler's own statements on a new server connection (prewarmer plugin) are requests sent to the mirrored
            # server like any other; a mirror connection gets copies of them and nothing of its own
            pool['query_parser_enabled'] = True
            pool['plugins'] = {'prewarmer': {'enabled': True, 'queries': ["SELECT 'prewarm-marker'"]}}
        w.start(pools={'db': pool}, general={'connect_timeout': 1500})
        c = Client(w.port, name='A', timeout=6.0)
        if c.startup.end != 'Z':
            out['notes'].append('startup failed')
            return out
        where = [None]
        dead = [False]

        def steer(s):
            if where[0] == s:
                return
            where[0] = s
            if two:
                c.send(W.Q("SET SHARD TO '%d'" % (0 if s == 's1' else 1)))
            else:
                c.send(W.Q("SET SERVER ROLE TO '%s'" % ('primary' if s == 's1' else 'replica')))
            c.read_reply(4.0)

        def one(sql=None, raw=None, stop=('Z',)):
            if raw is None:
                raw = W.Q(sql + ' ' + c.tag())
            if dead[0]:
                return Reply([], 'EOF')
            try:
                c.send(raw)
            except OSError:
                dead[0] = True
                return Reply([], 'EOF')
            r = c.read_reply(6.0, stop=stop)
            if r.end in ('EOF', 'TIMEOUT'):
                dead[0] = True
            return r

        def do_req(kind):
            reps = []
            if kind == 'simple':
                reps.append(one('SELECT 1'))
            elif kind == 'tx':
                reps.append(one('BEGIN'))
                reps.append(one('INSERT INTO t VALUES (1)'))
                reps.append(one('COMMIT'))
            elif kind == 'ext':
                reps.append(one(raw=W.Parse('', 'SELECT $1 ' + c.tag(), ()) + W.Bind('', '', [b'7']) + W.Describe('P', '')
                                + W.Execute() + W.Sync()))
            elif kind == 'big':
                reps.append(one("SELECT '" + 'x' * 150000 + "'"))
            elif kind == 'copy':
                r1 = one('COPY t FROM STDIN', stop=('G', 'Z'))
                reps.append(r1)
                if r1.end == 'G':
                    reps.append(one(raw=W.CopyData(b'1\t2\n') + W.CopyData(b'3\t4\n' * 2000) + W.CopyDone()))
            elif kind == 'set':
                reps.append(one("SET work_mem TO '77MB'"))
                reps.append(one('SHOW work_mem'))
            elif kind == 'burst':
                for _ in range(14):
                    reps.append(one('SELECT 2'))
            elif kind == 'fatal':
                reps.append(one('SELECT 3 /*v:fatal*/'))
            return reps

        for i, st in enumerate(item['steps']):
            op = st['op']
            if op == 'req':
                steer(st['a'])
                t0 = time.time()
                reps = do_req(st['b'])
                ms = int((time.time() - t0) * 1000)
                out['ops'].append({'i': i, 'op': 'req:%s:%s' % (st['a'], st['b']), 'ms': ms,
                                   'reply': [norm_reply(r) for r in reps]})
                if any(r.end not in ('Z', 'G') for r in reps):
                    out['notes'].append('step %d: no complete reply' % i)
                    break
            elif op == 'fault':
                if st['a'] in mir:
                    mir[st['a']].fault(st['b'])
            elif op == 'recycle':
                steer(st['a'])
                t0 = time.time()
                reps = do_req('fatal')
                ms = int((time.time() - t0) * 1000)
                out['ops'].append({'i': i, 'op': 'recycle:%s' % st['a'], 'ms': ms, 'reply': [norm_reply(r) for r in reps]})
                # whether the client's connection survives the server's death, and whether the next statement still meets the
                # dead connection, depends on timing, with or without mirrors: a new client continues, and such connections
                # are used up before the steps that are compared
                c.close()
                c = Client(w.port, name='A%d' % i, timeout=6.0)
                where[0] = None
                dead[0] = False
                if c.startup.end != 'Z':
                    out['notes'].append('step %d: no new client after the recycle' % i)
                    break
                steer(st['a'])
                for _ in range(item.get('pool_size', 1) + 2):
                    r0 = one('SELECT 0')
                    if r0.end != 'Z':
                        break
                    if not r0.errors:
                        break
            elif op == 'pause':
                time.sleep(0.25)
        # a last request per server, after which the mirrors are given time to drain
        c.close()
        out['alive'] = w.alive()
        if not with_mirrors:
            return out
        time.sleep(0.6)
        final_mode = {m: b.fault_kind for m, b in mir.items()}
        evs = w.log.snapshot()
        hooks = w.hooks()
        ids = item['_intern']

        def mid(t, data):
            k = data
            if k not in ids:
                ids[k] = len(ids) + 1
            return ids[k]

        # ---- buffers written to each server connection
        lens = {}
        for h in hooks:
            if h['ev'] == 'server_send':
                lens.setdefault(h['spid'], []).append(h['len'])
        for sname in ('s1', 's2'):
            conns = {}
            for e in evs:
                if e.get('ev') == 'connect' and e.get('be') == sname:
                    # (a connection may die before it reads anything: what was written to it is known by length only)
                    conns.setdefault(e['conn'], {'spid': e['spid'], 'msgs': []})
                if e.get('ev') == 'be_read' and e.get('be') == sname:
                    conns.setdefault(e['conn'], {'spid': e['spid'], 'msgs': []})['msgs'].append(e['data'])
            clist = []
            for k in sorted(conns):
                msgs = conns[k]['msgs']
                chunks = []
                pos = 0
                for L in lens.get(conns[k]['spid'], []):
                    acc = 0
                    ch = []
                    while acc < L and pos < len(msgs):
                        acc += len(msgs[pos])
                        ch.append(mid('', msgs[pos]))
                        pos += 1
                    if acc == L:
                        chunks.append(ch)
                    elif pos >= len(msgs):
                        # the server stopped reading (it closed the connection): what it never received is still a request
                        out['notes'].append('%s conn %d: buffer of %d bytes not (fully) received by the server' % (sname, k, L))
                        chunks.append([-L])
                        continue
                    else:
                        out['notes'].append('MISALIGNED %s conn %d: buffer of %d bytes does not end at a message boundary' % (sname, k, L))
                        out['misaligned'] = True
                        break
                if chunks:
                    clist.append(chunks)
            out['chunks'][sname] = clist
        # ---- what every mirror connection received
        out['streams'] = []
        for m, b in mir.items():
            conns = {}
            last = {}
            enddirt = {}
            for e in evs:
                if e.get('be') != m or 'conn' not in e:
                    continue
                if e.get('ev') == 'be_read':
                    conns.setdefault(e['conn'], []).append(e['data'])
                if e.get('ev') in ('connect',):
                    conns.setdefault(e['conn'], [])
                last[e['conn']] = e.get('ev')
                if e.get('ev') in ('eof', 'terminate'):
                    enddirt[e['conn']] = e.get('dirt') or {}
            ever_faulty = item['init'][m] != 'up' or any(s['op'] == 'fault' and s['a'] == m for s in item['steps'])
            for k in sorted(conns):
                msgs = conns[k]
                if msgs and msgs[-1][:1] == b'X':
                    msgs = msgs[:-1]
                closed_by_pgcat = last.get(k) in ('eof', 'terminate')
                whole = closed_by_pgcat or (not ever_faulty)
                d = enddirt.get(k, {})
                healthy = not ever_faulty and not any(x['op'] == 'recycle' for x in item['steps'])
                out['streams'].append({'m': m, 'k': k, 'ids': [mid('', d) for d in msgs], 'sizes': [len(d) for d in msgs], 'whole': bool(whole),
                                       'cut_in_copy': bool(healthy and closed_by_pgcat and d.get('copy') == 'in'),
                                       'cut_in_tx': bool(healthy and closed_by_pgcat and d.get('tx', 'I') != 'I'),
                                       'texts': [short(chr(d[0]), d[5:]) for d in msgs[:12]], 'last': last.get(k, '')})
        out['final_mode'] = final_mode
        out['mirror_conns'] = {m: len([1 for s in out['streams'] if s['m'] == m]) for m in mir}
        out['enq'] = [(h['ok'], h['len']) for h in hooks if h['ev'] == 'mirror_enqueue']
    return out


def run_scenario(item):
    item = dict(item)
    item['_intern'] = {}
    res = {'id': item['id'], 'notes': []}
    for attempt in range(2):
        a = run_world(item, True)
        b = run_world(item, False)
        res['with'] = a
        res['without'] = b
        slow = [x for x, y in zip(a['ops'], b['ops']) if x['ms'] - y['ms'] > 300]
        # after a server connection died under the pooler, what the following statements meet depends on timing in both worlds:
        # a difference in such a history has to show twice
        unsure = any(st['op'] == 'recycle' for st in item['steps']) and \
            [x['reply'] for x in a['ops']] != [y['reply'] for y in b['ops']]
        if not slow and not unsure:
            break
        res['notes'].append('attempt %d: %d steps slower with mirrors%s' % (attempt, len(slow), ', replies differ after a recycle' if unsure else ''))
        item['_intern'] = {}
    recs = [{'ev': 'reset', 'sc': item['id'], 'target': TOPOS[item['topo']]['target']}]
    for s in ('s1', 's2'):
        for chunks in a.get('chunks', {}).get(s, []):
            recs.append({'ev': 'send', 's': s, 'chunks': chunks})
    for st in a.get('streams', []):
        recs.append({'ev': 'mstream', 'm': st['m'], 'k': st['k'], 'ids': st['ids'], 'sizes': st['sizes'], 'whole': st['whole'], 'texts': st['texts'],
                     'cut_in_copy': st['cut_in_copy']})
    n = max(len(a['ops']), len(b['ops']))
    for j in range(n):
        x = a['ops'][j] if j < len(a['ops']) else None
        y = b['ops'][j] if j < len(b['ops']) else None
        same = x is not None and y is not None and x['reply'] == y['reply']
        recs.append({'ev': 'reply', 'i': (x or y)['i'], 'op': (x or y)['op'], 'same': same,
                     'extra_ms': (x['ms'] - y['ms']) if x and y else 0,
                     'ms_with': x['ms'] if x else -1, 'ms_without': y['ms'] if y else -1,
                     'with': brief(x), 'without': brief(y)})
    res['recs'] = recs
    res['alive'] = a.get('alive', True) and b.get('alive', True)
    res['notes'] += a['notes'] + ['(without) ' + x for x in b['notes']]
    res['misaligned'] = a.get('misaligned', False)
    res['mirror_conns'] = a.get('mirror_conns', {})
    res['delivered'] = sum(len(s['ids']) for s in a.get('streams', []))
    res['dropped'] = len([1 for ok, _ in a.get('enq', []) if not ok])
    res['cut_in_tx'] = len([1 for st in a.get('streams', []) if st['cut_in_tx']])
    return res


def brief(x):
    if x is None:
        return 'missing'
    out = []
    for rep in x['reply']:
        out.append(' '.join('%s' % t if t != 'E' else 'E[%s]' % b[:60] for t, b in rep)[:120])
    return out[:4]


def check_c20(prop, tier, seed):
    v = core.Verdict(prop, tier, seed)
    v.assumptions = [
        'a request sent to the mirrored server = one buffer handed to Server::send (the server_send hook gives its length; its bytes are '
        'what the mock server received)',
        'no added waiting = no step takes more than 300 ms longer with mirrors than in the run of the same history without mirrors '
        '(confirmed by a second pair of runs); mirror faults are unbounded stalls, 400 ms per message, hung startup, refusal, '
        'close mid-stream, error replies, garbage replies, a dead port',
        'a mirror connection that was closed by the mirror, or whose mirror ever misbehaved, may end in the middle of a buffer',
    ]
    core.build_pgcat()
    for cfg in (['MC_Mirror_q.cfg'] if tier == 'quick' else ['MC_Mirror.cfg', 'MC_Mirror_same.cfg']):
        res = tlc.run_tlc('MC_Mirror', cfg, workers=8, coverage=True, timeout=1800)
        v.add_mc('mc:' + cfg, res)
        if res.rc != 0:
            v.tool_error('Mirror design %s rc=%d %s' % (cfg, res.rc, res.errors()[:2]))
    for d in ('blocking_send', 'wrong_target', 'mirror_reply_forwarded', 'unbounded_channel'):
        r2 = tlc.run_tlc('MC_Mirror', 'MC_Mirror_dev_%s.cfg' % d, workers=4)
        v.add_mc('mc:dev:' + d, r2)
        if not r2.invariant_violated:
            v.tool_error('Mirror deviation %s not detected' % d)
        else:
            v.extra.setdefault('model_negative_control', []).append('%s violates %s' % (d, r2.invariant_violated))
    n = {'quick': 120, 'thorough': 1500}[tier]
    res = tlc.run_tlc('Gen_Mirror', 'Gen_Mirror.cfg', workers=1, simulate=n * 2, depth=200, seed=seed, timeout=900)
    if res.rc != 0:
        v.tool_error('Gen_Mirror rc=%d %s' % (res.rc, res.errors()[:2]))
        return v.finish()
    v.add_mc('gen(simulate)', res)
    seen = set()
    scen = []
    for t, o in res.prints:
        if t == 'SCENARIO':
            k = json.dumps(o, sort_keys=True)
            if k not in seen:
                seen.add(k)
                scen.append(o)
    rng = random.Random(seed)
    rng.shuffle(scen)
    scen = scen[:n]
    topos = sorted(TOPOS)
    items = []
    for j, s in enumerate(scen):
        it = {'id': j + 1, 'topo': topos[j % len(topos)], 'init': s['init'], 'steps': s['steps'],
              'pool_size': 1 if j % 4 else 2}
        if j % 7 == 3:
            it['dead'] = 'm2'
        it['prewarm'] = j % 3 == 1
        # directed: mirrors that never take anything, then more requests than the channel holds
        if j % 5 == 0:
            stuck = ['stall', 'hang_startup']
            it['init'] = rng.choice([{'m1': rng.choice(stuck), 'm2': rng.choice(stuck + ['slow'])},
                                     {'m1': 'up', 'm2': rng.choice(stuck)},
                                     {'m1': rng.choice(stuck), 'm2': 'up'}])
            it['steps'] = [x for x in it['steps'] if x['op'] != 'fault'] + [{'op': 'req', 'a': 's1', 'b': 'burst'},
                                                                            {'op': 'req', 'a': 's2', 'b': 'burst'}]
        items.append(it)
    results = core.run_parallel(run_scenario, items, workers=10)
    recs = []
    ok = []
    conns = 0
    delivered = 0
    dropped = 0
    cut_tx = 0
    for it, r in zip(items, results):
        if 'error' in r:
            v.tool_error('mirror scenario crashed: ' + r['error'][-600:])
            continue
        if r.get('misaligned'):
            v.tool_error('scenario %d: %s' % (it['id'], [x for x in r['notes'] if 'MISALIGNED' in x][:1]))
            continue
        ok.append((it, r))
        recs += r['recs']
        delivered += r['delivered']
        dropped += r['dropped']
        conns += sum(r['mirror_conns'].values())
        cut_tx += r['cut_in_tx']
        if not r.get('alive', True):
            v.violation('pgcat_died', {'notes': r['notes'][:3]}, replay=it)
        if r['delivered']:
            v.nontrivial_case(json.dumps([it['topo'], it['init'], it['steps']]))
    v.cov['evaluations'] = len(ok)
    v.extra['mirror_messages_delivered'] = delivered
    v.extra['buffers_dropped_on_full_channel'] = dropped
    v.extra['mirror_connections'] = conns
    v.extra['healthy_mirror_connections_closed_by_pgcat_inside_a_transaction'] = cut_tx
    res, info = tlc.validate_trace('Trace_Mirror', 'Trace_Mirror.cfg', recs, timeout=1200)
    v.add_mc('trace', res)
    if info['matched'] != info['total']:
        v.tool_error('Trace_Mirror consumed %s of %s: %s' % (info['matched'], info['total'], res.errors()[:2] or res.out[-500:]))
    else:
        v.cov['traces_validated_against_impl'] = len(ok)
    byid = {it['id']: (it, r) for it, r in ok}
    for vi in info['viol']:
        it, r = byid[vi['sc']]
        v.violation('%s/topo=%s' % (vi['kind'], it['topo']), dict(vi['detail'], notes=r['notes'][:4]), replay=it)
    # negative controls: a foreign message, a cut buffer, a slow step
    done = 0
    for it, r in ok:
        ms = [x for x in r['recs'] if x['ev'] == 'mstream' and len(x['ids']) >= 2]
        if not ms:
            continue
        seg = json.loads(json.dumps(r['recs']))
        tgt = [x for x in seg if x['ev'] == 'mstream' and len(x['ids']) >= 2][0]
        tgt['ids'] = tgt['ids'][:1] + [999999] + tgt['ids'][1:]
        tgt['sizes'] = tgt['sizes'][:1] + [11] + tgt['sizes'][1:]
        for x in seg:
            if x['ev'] == 'reply':
                x['extra_ms'] = 900
                break
        res2, info2 = tlc.validate_trace('Trace_Mirror', 'Trace_Mirror.cfg', seg)
        kinds = {x['kind'] for x in info2['viol']}
        if 'mirror_got_what_its_server_never_got' in kinds and 'request_waited_for_mirror' in kinds:
            v.extra['negative_control'] = 'inserted a message into a mirror stream and 900 ms into one step: both rejected'
            done = 1
        else:
            v.tool_error('negative control failed: %s' % sorted(kinds))
        break
    if not done and not v.tool_errors:
        v.tool_error('negative control: no mirror stream with two messages')
    for it, r in ok[:2]:
        v.add_sample({'topo': it['topo'], 'init': it['init'], 'steps': [(x['op'], x['a'], x['b']) for x in it['steps']],
                      'mirror_conns': r['mirror_conns'], 'delivered': r['delivered']})
    v.cov['rule'] = ('histories = random behaviours (tlc -simulate, seeded) of Gen_Mirror: 6 requests of 7 kinds to 2 servers, up to 4 '
                     'fault changes / recycles, pauses; 6 mirror-to-server mappings; every fifth history is directed at a full channel (both mirrors stuck, or one stuck and one healthy); '
                     'each history is run with and without mirrors; nontrivial = histories in which a mirror received something')
    return v.finish()
