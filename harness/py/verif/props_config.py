"""Check C15: an accepted configuration is a servable configuration."""
import hashlib
import json
import os
import random
import subprocess
import time

from . import core, tlc
from . import pgwire as W
from .client import Client
from .world import World, render_config, default_general, BIN

SHARD_KEYS = {'0': ['0'], '0_1': ['0', '1'], '0_1_2': ['0', '1', '2'], '1': ['1'], '1_2': ['1', '2'], '0_2': ['0', '2'],
              '0_x': ['0', 'x'], '0_neg1': ['0', '-1'], '0_01': ['0', '01'], '0_to_11': [str(i) for i in range(12)],
              '0_00': ['0', '00'], '0_00_2': ['0', '00', '2']}
LAYOUT = {'P': ['primary'], 'PR': ['primary', 'replica'], 'PRR': ['primary', 'replica', 'replica'], 'R': ['replica'],
          'PP': ['primary', 'primary'], 'Pdup': ['primary', 'DUP']}


def run_config(item):
    c = item['c']
    rec = {'sc': item['id'], 'c': c, 'accepted': False, 'died': False, 'admin_ok': True, 'probes': [], 'note': ''}
    with World('cf') as w:
        keys = SHARD_KEYS[c['shards']]
        shards = {}
        label = {}
        for k in keys:
            servers = []
            first = None
            for j, role in enumerate(LAYOUT[c['layout']]):
                if role == 'DUP':
                    servers.append(list(first))
                    continue
                b = w.backend('k%s_%d' % (k.replace('-', 'n'), j), shard=k, role=role)
                label[b.name] = k
                entry = ['127.0.0.1', b.port, role]
                if first is None:
                    first = entry
                servers.append(entry)
            shards[k] = {'database': 'db', 'servers': servers}
        n = len(keys)
        defshard = {'shard_0': 'shard_0', 'shard_last': 'shard_%d' % (n - 1), 'shard_n': 'shard_%d' % n, 'random': 'random',
                    'random_healthy': 'random_healthy', 'junk': 'sometimes'}[c['defshard']]
        user = {'username': 'u', 'pool_size': c['psize']}
        if c['creds'] == 'password':
            user['password'] = 'pw'
        elif c['creds'] == 'trust':
            user['password'] = 'pw'
            user['auth_type'] = 'trust'
        pool = {'pool_mode': 'transaction', 'default_role': c['defrole'] if c['defrole'] != 'junk' else 'sometimes',
                'default_shard': defshard, 'users': {'0': user}, 'shards': shards}
        if c['creds'] == 'authquery':
            pool.update({'auth_query': "SELECT usename, passwd FROM pg_shadow WHERE usename='$1'", 'auth_query_user': 'aq',
                         'auth_query_password': 'aqpw'})
            h = 'md5' + hashlib.md5(b'pwu').hexdigest()
            for b in w.backends.values():
                b.auth_rows = [('u', h)]
        other_pools = {}
        if c['creds'] == 'authquery_incomplete':
            pool.update({'auth_query_user': 'aq', 'auth_query_password': 'aqpw'})
        if c['creds'] == 'none_other_pool_authquery':
            anyb = sorted(w.backends.values(), key=lambda x: x.name)[0]
            other_pools['dbq'] = {'pool_mode': 'transaction', 'default_role': 'any', 'users': {'0': {'username': 'uq', 'pool_size': 1}},
                                  'shards': {'0': {'database': 'db', 'servers': [['127.0.0.1', anyb.port, 'primary']]}},
                                  'auth_query': "SELECT usename, passwd FROM pg_shadow WHERE usename='$1'",
                                  'auth_query_user': 'aq', 'auth_query_password': 'aqpw'}
            for b in w.backends.values():
                b.auth_rows = [('uq', 'md5' + hashlib.md5(b'pwuq').hexdigest())]
        if c['regex'] == 'valid':
            pool['shard_id_regex'] = r'/\* shard_id: (\d+) \*/'
            pool['query_parser_enabled'] = True
        elif c['regex'] == 'invalid':
            pool['shard_id_regex'] = r'/\* shard_id: ((\d+) \*/'
            pool['query_parser_enabled'] = True
        if c['plugins'] != 'none':
            pool['plugins'] = {'table_access': {'enabled': True, 'tables': ['secret']}}
            pool['query_parser_enabled'] = c['plugins'] == 'with_parser' or c['regex'] != 'none'
            if c['plugins'] == 'without_parser':
                pool['query_parser_enabled'] = False
                pool.pop('shard_id_regex', None) if c['regex'] == 'none' else None
        w.port = W.free_port()
        text = render_config(default_general(w.port), dict({'db': pool}, **other_pools))
        try:
            w.start(text=text, port=w.port)
            rec['accepted'] = True
        except RuntimeError as e:
            rec['accepted'] = False
            rec['note'] = str(e)[-200:].replace('\x1b', '')
            return rec
        # ---- probes: one transaction per selectable shard number, one without a selection, the admin console
        try:
            cl = Client(w.port, user='u', password='pw', name='P', timeout=3.0)
        except OSError as e:
            rec['note'] = 'connect %r' % e
            rec['died'] = not w.alive()
            return rec
        if cl.startup.end != 'Z':
            # cannot log in although the configuration was accepted
            rec['probes'].append({'sel': 'login', 'want': 'login', 'landed': 'none', 'must': True, 'reply': cl.startup.brief()[:80]})
            rec['died'] = not w.alive()
            return rec
        roles = LAYOUT[c['layout']]
        role_possible = c['defrole'] == 'any' or (c['defrole'] == 'primary' and 'primary' in roles) or \
            (c['defrole'] == 'replica' and 'replica' in roles)
        for i in range(n):
            rep = cl.query("SET SHARD TO '%d'" % i, tagged=False)
            if rep.end != 'Z':
                break
            rep = cl.query('SELECT 1')
            e = rep.echoes()
            landed = label.get(e[0]['be'], '?') if (rep.end == 'Z' and e) else 'none'
            want = [k for k in keys if k.lstrip('-').isdigit() and int(k) == i]
            rec['probes'].append({'sel': str(i), 'want': want[0] if want else str(i), 'landed': landed, 'must': role_possible,
                                  'reply': rep.brief()[:80]})
            if rep.end != 'Z':
                break
        if w.alive():
            try:
                c2 = Client(w.port, user='u', password='pw', name='Q', timeout=3.0)
                rep = c2.query('SELECT 2')
                e = rep.echoes()
                landed = label.get(e[0]['be'], '?') if (rep.end == 'Z' and e) else 'none'
                want = keys[0] if c['defshard'] == 'shard_0' else (keys[-1] if c['defshard'] == 'shard_last' else landed)
                rec['probes'].append({'sel': 'default', 'want': want, 'landed': landed, 'must': role_possible, 'reply': rep.brief()[:80]})
                c2.close()
            except OSError:
                pass
        if w.alive():
            for cmd in ('SHOW POOLS', 'SHOW DATABASES', 'SHOW SERVERS', 'SHOW STATS', 'SHOW BANS', 'SHOW CONFIG'):
                try:
                    rep = w.admin_cmd(cmd, timeout=3.0)
                    if rep.end != 'Z' or rep.errors:
                        rec['admin_ok'] = False
                        rec['note'] += ' %s: %s' % (cmd, rep.brief()[:60])
                except OSError as e:
                    rec['admin_ok'] = False
                    rec['note'] += ' %s: %r' % (cmd, e)
        cl.close()
        time.sleep(0.02)
        rec['died'] = not w.alive()
        if rec['died']:
            rec['note'] += ' ' + w.read_log()[-300:].replace('\x1b', '')
    return rec


def check_c15(prop, tier, seed):
    v = core.Verdict(prop, tier, seed)
    v.assumptions = [
        'the configuration grammar and the must-reject rule are those of spec/ConfigSpace.tla; other unservable shapes '
        '(default_role without a server of that role, one host:port under two roles) are dontcare',
        'accepted = the process started listening; a transaction per selectable shard number lands on a mock backend '
        'labelled with the shard key it was configured under',
    ]
    core.build_pgcat()
    cfg = 'ConfigSpace.cfg'
    if tier == 'thorough':
        with open(os.path.join(tlc.SPEC, 'ConfigSpace3.tla'), 'w') as f:
            f.write(open(os.path.join(tlc.SPEC, 'ConfigSpace.tla')).read().replace('MODULE ConfigSpace', 'MODULE ConfigSpace3')
                    .replace('Dist(c) <= 2', 'Dist(c) <= 3'))
        res = tlc.run_tlc('ConfigSpace3', cfg, workers=1, timeout=1200)
    else:
        res = tlc.run_tlc('ConfigSpace', cfg, workers=1)
    if res.rc != 0:
        v.tool_error('ConfigSpace rc=%d %s' % (res.rc, res.errors()[:2]))
        return v.finish()
    v.add_mc('gen:ConfigSpace', res)
    items = [{'id': i + 1, 'c': o['c']} for i, (t, o) in enumerate(res.prints) if t == 'CONFIG']
    v.extra['configurations'] = len(items)
    results = core.run_parallel(run_config, items, workers=14)
    recs = []
    for it, r in zip(items, results):
        if 'error' in r:
            v.tool_error('config scenario crashed: ' + r['error'][-400:])
            continue
        recs.append(r)
        v.nontrivial_case(json.dumps(it['c'], sort_keys=True))
    v.cov['evaluations'] = len(recs)
    v.extra['accepted'] = sum(1 for r in recs if r['accepted'])
    res, info = tlc.validate_trace('Trace_ConfigSpace', 'Trace_ConfigSpace.cfg', recs, timeout=900)
    v.add_mc('trace', res)
    if info['matched'] != info['total']:
        v.tool_error('Trace_ConfigSpace consumed %s of %s: %s' % (info['matched'], info['total'], res.errors()[:2] or res.out[-500:]))
    else:
        v.cov['traces_validated_against_impl'] = len(recs)
    byid = {r['sc']: r for r in recs}
    for vi in info['viol']:
        d = vi['detail']
        if vi['kind'] == 'unservable_configuration_accepted':
            sig = 'unservable_configuration_accepted/' + '+'.join(sorted(d['reasons']))
        else:
            sig = '%s/shards=%s/layout=%s' % (vi['kind'], d['config']['shards'], d['config']['layout'])
        v.violation(sig, d, replay=byid.get(vi['sc']))
    # negative control
    okrec = [r for r in recs if r['accepted'] and len(r['probes']) >= 2 and all(p['landed'] == p['want'] for p in r['probes'])]
    if okrec:
        seg = [json.loads(json.dumps(okrec[0]))]
        seg[0]['probes'][0]['landed'] = 'elsewhere'
        res2, info2 = tlc.validate_trace('Trace_ConfigSpace', 'Trace_ConfigSpace.cfg', seg)
        if any(x['kind'] == 'shard_misrouted' for x in info2['viol']):
            v.extra['negative_control'] = 'moved one probe to another shard: rejected'
        else:
            v.tool_error('negative control failed')
    else:
        v.tool_error('negative control: no accepted configuration with clean probes')
    for r in recs[:2]:
        v.add_sample(r)
    v.cov['rule'] = ('configurations = all members of the ConfigSpace grammar that differ from the base in <= %d of 8 dimensions '
                     '(shard id sets, server layouts, default_shard, default_role, credentials, regex, plugins, pool size), '
                     'enumerated by TLC; each is rendered to TOML and given to the real binary; distinct = configurations'
                     % (3 if tier == 'thorough' else 2))
    v.cov['exhaustive'] = True
    return v.finish()
