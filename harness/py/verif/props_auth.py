"""Check C09: no access without valid credentials."""
import hashlib
import json
import os
import random
import socket
import ssl
import struct
import time

from . import core, tlc
from . import pgwire as W
from .client import md5_password
from .world import World, simple_pool, REPO

STARTUPS = ['pool_md5', 'pool_md5_authquery', 'pool_md5_authquery2', 'pool_trust', 'unknown_db', 'unknown_user', 'admin_ok_user',
            'admin_wrong_user', 'no_user']
RESPONSES = ['correct', 'wrong_password', 'replayed', 'other_users_password', 'truncated', 'empty', 'wrong_message_type', 'none',
             'zero_length_body', 'constant_md5', 'correct_prefix', 'correct_without_nul', 'correct_with_suffix', 'previous_password']
PREVIOUS = {'secret1': 'secret0'}     # password of u_md5 before the RELOAD of rotated worlds
CREDS = {
    'pool_md5': ('db', 'u_md5', 'secret1'),
    'pool_md5_authquery': ('dbq', 'u_aq', 'aqsecret'),
    'pool_md5_authquery2': ('dbq', 'u_aq2', 'aqsecret2'),      # a second user of the same auth_query pool section
    'pool_trust': ('db', 'u_trust', None),
    'unknown_db': ('nodb', 'u_md5', 'secret1'),
    'unknown_user': ('db', 'nobody', 'secret1'),
    'admin_ok_user': ('pgcat', 'admin', 'adminpw'),
    'admin_wrong_user': ('pgcat', 'u_md5', 'secret1'),
    'no_user': ('db', None, None),
}


def open_conn(port, tls):
    s = socket.create_connection(('127.0.0.1', port), timeout=3)
    s.setsockopt(socket.IPPROTO_TCP, socket.TCP_NODELAY, 1)
    if tls:
        s.sendall(W.ssl_request())
        if s.recv(1) == b'S':
            ctx = ssl.SSLContext(ssl.PROTOCOL_TLS_CLIENT)
            ctx.check_hostname = False
            ctx.verify_mode = ssl.CERT_NONE
            s = ctx.wrap_socket(s)
    return s


def read_until(s, stop, timeout=2.0):
    """Read messages until one of `stop` types, EOF or timeout. Returns (msgs, end)."""
    msgs = []
    s.settimeout(timeout)
    try:
        while True:
            t, b = W.read_msg(s)
            msgs.append((t.decode(errors='replace'), b))
            if t.decode(errors='replace') in stop:
                return msgs, t.decode()
    except socket.timeout:
        return msgs, 'TIMEOUT'
    except (EOFError, ConnectionError, OSError, ValueError):
        return msgs, 'EOF'


def startup_bytes(startup):
    db, user, pw = CREDS[startup]
    params = []
    if user is not None:
        params.append(('user', user))
    params.append(('database', db))
    return W.startup_packet(params)


def get_salt(port, startup, tls):
    """Open a connection just far enough to be issued a salt; returns (socket, salt or None, msgs)."""
    s = open_conn(port, tls)
    s.sendall(startup_bytes(startup))
    msgs, end = read_until(s, ('R', 'Z', 'E'))
    salt = None
    for t, b in msgs:
        if t == 'R' and len(b) >= 8 and struct.unpack('!i', b[:4])[0] == 5:
            salt = b[4:8]
    return s, salt, msgs, end


def attempt(w, idx, startup, response, tls, rng):
    tagname = 'X%d' % idx
    rec = {'sc': idx, 'startup': startup, 'response': response, 'tls': tls, 'cfg': 'md5', 'authok': False, 'ready': False,
           'leaked': False, 'statement_ran': False, 'note': ''}
    db, user, pw = CREDS[startup]
    old_salt = None
    if response == 'replayed':
        s0, old_salt, _, _ = get_salt(w.port, startup, tls)
        s0.close()
    mark = w.log.mark()
    try:
        s, salt, msgs, end = get_salt(w.port, startup, tls)
    except OSError as e:
        rec['note'] = 'connect: %r' % e
        return rec
    all_msgs = list(msgs)
    if salt is not None:
        u = user or ''
        if response == 'correct':
            out = W.Password(md5_password(u, pw, salt))
        elif response == 'wrong_password':
            out = W.Password(md5_password(u, rng.choice(['nope', pw + 'x', pw[:-1], '']), salt))
        elif response == 'replayed':
            if old_salt is None or old_salt == salt:
                rec['note'] = 'no distinct earlier salt'
                out = W.Password(md5_password(u, 'nope', salt))
                rec['response'] = 'wrong_password'
            else:
                out = W.Password(md5_password(u, pw, old_salt))
        elif response == 'previous_password':
            out = W.Password(md5_password(u, PREVIOUS.get(pw, 'secret0'), salt))
        elif response == 'other_users_password':
            other = {'aqsecret': 'aqsecret2', 'aqsecret2': 'aqsecret', 'adminpw': 'secret1'}.get(pw, 'adminpw')
            # the other user's secret as the server stores it: md5(password || that user's name)
            other_name = {'aqsecret': 'u_aq2', 'aqsecret2': 'u_aq'}.get(pw, u)
            out = W.Password(md5_password(other_name, other, salt))
        elif response == 'truncated':
            full = W.Password(md5_password(u, pw, salt))
            out = full[:rng.choice([1, 3, 5, 9, len(full) - 1])]
        elif response == 'empty':
            out = W.Password('')
        elif response == 'zero_length_body':
            out = W.msg(b'p', b'')
        elif response == 'constant_md5':
            out = W.msg(b'p', rng.choice([b'md5', b'm', b'md5\0']))
        elif response == 'correct_prefix':
            full = md5_password(u, pw, salt).encode()
            out = W.msg(b'p', full[:rng.choice([4, 10, 20, 34])])
        elif response == 'correct_without_nul':
            out = W.msg(b'p', md5_password(u, pw, salt).encode())
        elif response == 'correct_with_suffix':
            out = W.msg(b'p', md5_password(u, pw, salt).encode() + b'x\0')
        elif response == 'wrong_message_type':
            out = W.Q('SELECT 1 /*c=%s;n=9*/' % tagname)
        else:
            out = b''
        try:
            if out:
                s.sendall(out)
            if response in ('truncated', 'none'):
                # give the pooler a moment, then see that nothing good comes back
                m2, end = read_until(s, ('Z',), timeout=0.4)
            else:
                m2, end = read_until(s, ('Z',), timeout=2.0)
            all_msgs += m2
        except OSError:
            pass
    else:
        if end == 'R' or end == 'Z':
            m2, end = read_until(s, ('Z',), timeout=2.0) if end != 'Z' else ([], 'Z')
            all_msgs += m2
    for t, b in all_msgs:
        if t == 'R' and len(b) >= 4 and struct.unpack('!i', b[:4])[0] == 0:
            rec['authok'] = True
        if t == 'Z':
            rec['ready'] = True
    # whatever happened, now try to use the connection
    try:
        s.sendall(W.Q('SELECT 1 /*c=%s;n=1*/' % tagname))
        m3, _ = read_until(s, ('Z',), timeout=0.6)
    except OSError:
        m3 = []
    try:
        s.close()
    except OSError:
        pass
    time.sleep(0.02)
    for e in w.log.snapshot()[mark:]:
        txt = e.get('sql') or ''
        if ('c=%s;' % tagname) in txt:
            rec['leaked'] = True
            if e.get('ev') == 'exec':
                rec['statement_ran'] = True
    return rec


def run_batch(item):
    rng = random.Random(item['seed'])
    tls = item['tls']
    out = {'recs': [], 'alive': True}
    general = {'admin_auth_type': 'md5'}
    if tls:
        general.update({'tls_certificate': os.path.join(REPO, '.circleci', 'server.cert'),
                        'tls_private_key': os.path.join(REPO, '.circleci', 'server.key')})
    with World('au') as w:
        b1 = w.backend('p0')
        b2 = w.backend('q0')
        aq_hash = 'md5' + hashlib.md5(b'aqsecretu_aq').hexdigest()
        aq_hash2 = 'md5' + hashlib.md5(b'aqsecret2u_aq2').hexdigest()
        b2.auth_rows = [('u_aq', aq_hash), ('u_aq2', aq_hash2)]
        db = simple_pool([['127.0.0.1', b1.port, 'primary']], pool_size=2, user={'username': 'u_md5', 'password': 'secret1', 'auth_type': None})
        db['users']['1'] = {'username': 'u_trust', 'password': 'x', 'auth_type': 'trust', 'pool_size': 2}
        dbq = simple_pool([['127.0.0.1', b2.port, 'primary']], pool_size=2, user={'username': 'u_aq', 'password': None, 'auth_type': None})
        dbq['users']['1'] = {'username': 'u_aq2', 'pool_size': 2}
        dbq.update({'auth_query': "SELECT usename, passwd FROM pg_shadow WHERE usename='$1'", 'auth_query_user': 'aq_user',
                    'auth_query_password': 'aq_pw'})
        if item.get('rotated'):
            # start with the previous password of u_md5, then change only that password and RELOAD
            from .world import render_config, default_general
            db['users']['0']['password'] = 'secret0'
            w.start(general=general, pools={'db': db, 'dbq': dbq})
            db['users']['0']['password'] = 'secret1'
            g = default_general(w.port)
            g.update(general)
            w.write_config(render_config(g, {'db': db, 'dbq': dbq}))
            from .client import Client
            a = Client(w.port, db='pgcat', user='admin', password='adminpw', name='ADMIN', timeout=5.0)
            a.send(W.Q('RELOAD'))
            rr = a.read_reply(5.0)
            a.close()
            out['reload'] = rr.brief()
            time.sleep(0.1)
        else:
            w.start(general=general, pools={'db': db, 'dbq': dbq})
        for att in item['attempts']:
            rec = attempt(w, att['id'], att['startup'], att['response'], tls, rng)
            out['recs'].append(rec)
        out['alive'] = w.alive()
    return out


def check_c09(prop, tier, seed):
    v = core.Verdict(prop, tier, seed)
    rng = random.Random(seed)
    v.assumptions = [
        'MD5 answers are computed by the harness (hashlib); passwords / salts are sampled, the (startup class x response '
        'class x transport) space is enumerated completely',
        '"reached a server" = a mock backend received bytes carrying the connection\'s tag',
        'refusing valid credentials is not a violation of this property (it states "only if") and is reported as a note',
    ]
    core.build_pgcat()
    res = tlc.run_tlc('Auth', 'MC_Auth.cfg', workers=2, coverage=True)
    v.add_mc('mc:design', res)
    if res.rc != 0:
        v.tool_error('Auth design rc=%d %s' % (res.rc, res.errors()[:2]))
    for d in ('ok_before_check', 'admin_via_pool', 'stale_secret', 'secret_shared_in_pool'):
        r2 = tlc.run_tlc('Auth', 'MC_Auth_dev_%s.cfg' % d, workers=2)
        v.add_mc('mc:dev:' + d, r2)
        if not r2.invariant_violated:
            v.tool_error('Auth deviation %s not detected' % d)
    reps = {'quick': 3, 'thorough': 40}[tier]
    batches = []
    idx = 0
    for rep in range(reps):
        for tls in (False, True):
            atts = []
            for st in STARTUPS:
                for rs in RESPONSES:
                    idx += 1
                    atts.append({'id': idx, 'startup': st, 'response': rs})
            rng.shuffle(atts)
            half = len(atts) // 2
            batches.append({'attempts': atts[:half], 'tls': tls, 'seed': seed * 7 + idx, 'rotated': rep % 2 == 0})
            batches.append({'attempts': atts[half:], 'tls': tls, 'seed': seed * 7 + idx + 1, 'rotated': rep % 2 == 1})
    results = core.run_parallel(run_batch, batches, workers=12)
    recs = []
    refused_valid = 0
    for b, r in zip(batches, results):
        if 'error' in r:
            v.tool_error('auth batch crashed: ' + r['error'][-500:])
            continue
        if not r.get('alive', True):
            v.violation('pgcat_died', {}, replay=b)
        recs += r['recs']
    for r in recs:
        v.nontrivial_case('%s/%s/%s' % (r['startup'], r['response'], r['tls']))
        if r['startup'] in ('pool_md5', 'pool_md5_authquery', 'pool_md5_authquery2', 'admin_ok_user') and r['response'] == 'correct' and not r['ready']:
            refused_valid += 1
        if r['startup'] == 'pool_trust' and not r['ready']:
            refused_valid += 1
    v.extra['valid_logins_refused'] = refused_valid
    if refused_valid > len(recs) // 20:
        v.tool_error('%d valid logins were refused: the harness credentials do not match the configuration' % refused_valid)
    v.cov['evaluations'] = len(recs)
    res, info = tlc.validate_trace('Trace_Auth', 'Trace_Auth.cfg', recs, timeout=600)
    v.add_mc('trace', res)
    if info['matched'] != info['total']:
        v.tool_error('Trace_Auth consumed %s of %s: %s' % (info['matched'], info['total'], res.errors()[:2] or res.out[-400:]))
    else:
        v.cov['traces_validated_against_impl'] = len(recs)
    byid = {r['sc']: r for r in recs}
    for vi in info['viol']:
        d = vi['detail']
        v.violation('%s/startup=%s/response=%s' % (vi['kind'], d['startup'], d['response']), d, replay=byid.get(vi['sc']))
    # negative control
    good = [r for r in recs if r['startup'] == 'pool_md5' and r['response'] == 'wrong_password']
    if good:
        seg = [dict(good[0])]
        seg[0]['authok'] = True
        res2, info2 = tlc.validate_trace('Trace_Auth', 'Trace_Auth.cfg', seg)
        if any(x['kind'] == 'authentication_ok_without_credentials' for x in info2['viol']):
            v.extra['negative_control'] = 'marked a wrong-password attempt as AuthenticationOk: rejected'
        else:
            v.tool_error('negative control failed')
    else:
        v.tool_error('negative control: no wrong-password attempt')
    for r in recs[:3]:
        v.add_sample(r)
    v.cov['rule'] = ('attempts = every (startup class x response class) of Auth.tla (8 x 14) over plain and TLS, half of the worlds after a RELOAD that changed only the password of the md5 user, %d repetitions with '
                     'fresh salts / seeded wrong passwords; each attempt afterwards sends a tagged query to see whether anything '
                     'reaches a mock backend; distinct = (startup, response, transport)' % reps)
    v.cov['exhaustive'] = True
    return v.finish()
