"""Routing world: one pgcat with several pools over one set of labelled mock backends
(3 shards x (1 primary + 2 replicas)); sessions of routing commands and statements are run one
after another and every step's landing (which backend executed it), reply and parser verdict
are recorded.  Used by C05, C06, C13, C19."""
import random
import struct
import time

from . import pgwire as W
from .client import Client
from .world import World, simple_pool

NSHARDS = 3


def backend_layout(w, nshards=NSHARDS, replicas=2):
    be = {}
    for sh in range(nshards):
        be[(sh, 'primary', 0)] = w.backend('s%d_primary' % sh, shard=sh, role='primary')
        for r in range(replicas):
            be[(sh, 'replica', r)] = w.backend('s%d_replica%d' % (sh, r), shard=sh, role='replica')
    return be


def pool_for(be, cfg, nshards=NSHARDS, extra=None, pool_size=2):
    shards = {}
    if cfg.get('hash_n'):
        # hash-only pool: n shards that all point at the shard-0 servers (only SHOW SHARD is used)
        nshards = 0
        for sh in range(cfg['hash_n']):
            shards[str(sh)] = {'database': 'db', 'servers': [['127.0.0.1', be[(0, 'primary', 0)].port, 'primary']]}
    for sh in range(nshards):
        servers = []
        for (s, role, idx), b in sorted(be.items()):
            if s == sh:
                servers.append(['127.0.0.1', b.port, role])
        shards[str(sh)] = {'database': 'db', 'servers': servers}
    p = simple_pool(None, pool_size=pool_size, shards=shards)
    p['default_role'] = cfg.get('default_role', 'any')
    p['query_parser_enabled'] = bool(cfg.get('parser', False))
    p['query_parser_read_write_splitting'] = bool(cfg.get('rwsplit', False))
    p['primary_reads_enabled'] = bool(cfg.get('primary_reads', True))
    p['sharding_function'] = cfg.get('sharding_function', 'pg_bigint_hash')
    if cfg.get('automatic_sharding_key'):
        p['automatic_sharding_key'] = cfg['automatic_sharding_key']
    if cfg.get('sharding_key_regex'):
        p['sharding_key_regex'] = cfg['sharding_key_regex']
    if cfg.get('shard_id_regex'):
        p['shard_id_regex'] = cfg['shard_id_regex']
    if cfg.get('default_shard'):
        p['default_shard'] = cfg['default_shard']
    if cfg.get('prepared_statements_cache_size'):
        p['prepared_statements_cache_size'] = cfg['prepared_statements_cache_size']
    if cfg.get('plugins'):
        p['plugins'] = cfg['plugins']
    if extra:
        p.update(extra)
    return p


def cfg_key(cfg):
    return repr(sorted((k, repr(v)) for k, v in cfg.items()))


def run_batch(item):
    """item: {'sessions': [{'id', 'cfg', 'steps': [step...]}], 'general': {...}}
    step: {'kind': 'q'|'ext'|'raw', 'sql': str | 'parts': [...], 'meta': {...}}
    Returns {'sessions': [{'id', 'obs': [per step]}], 'alive'}"""
    sessions = item['sessions']
    out = {'sessions': [], 'alive': True}
    with World('rt') as w:
        be = backend_layout(w, item.get('nshards', NSHARDS), item.get('replicas', 2))
        pools = {}
        names = {}
        for s in sessions:
            k = cfg_key(s['cfg'])
            if k not in names:
                names[k] = 'p%d' % len(names)
                pools[names[k]] = pool_for(be, s['cfg'], item.get('nshards', NSHARDS))
        w.start(general=item.get('general'), pools=pools)
        hook_pos = 0
        for s in sessions:
            name = 'S%d' % s['id']
            mark = w.log.mark()
            try:
                c = Client(w.port, db=names[cfg_key(s['cfg'])], name=name, timeout=4.0,
                           params=s.get('params', ()))
            except OSError as e:
                out['sessions'].append({'id': s['id'], 'obs': [], 'error': 'connect: %r' % e})
                continue
            if c.startup.end != 'Z':
                out['sessions'].append({'id': s['id'], 'obs': [], 'error': 'startup: ' + c.startup.brief()})
                c.close()
                continue
            obs = []
            named = {}
            for st in s['steps']:
                if st.get('reload_before'):
                    # the configuration file changes in a way the step names and is reloaded while this client stays connected
                    from .world import render_config, default_general
                    nm = names[cfg_key(s['cfg'])]
                    for k2, v2 in st['reload_before'].items():
                        if k2 == 'bump_idle_timeout':
                            pools[nm]['idle_timeout'] = pools[nm].get('idle_timeout', 40000) + 1000
                        else:
                            pools[nm][k2] = v2
                    g = default_general(w.port)
                    g.update(item.get('general') or {})
                    w.write_config(render_config(g, pools))
                    try:
                        w.admin_cmd('RELOAD', timeout=6.0)
                    except OSError:
                        pass
                    time.sleep(0.05)
                o = {'serials': []}
                kind = st['kind']
                t_mark = w.log.mark()
                if kind == 'q':
                    sql = st['sql']
                    if st.get('tag', True):
                        parts = sql.split(';')
                        tagged = []
                        for p in parts:
                            if p.strip():
                                tagged.append(p + ' ' + c.tag())
                                o['serials'].append(c.serial)
                            else:
                                tagged.append(p)
                        sql = ';'.join(tagged)
                    o['sent'] = sql
                    c.send(W.Q(sql))
                    rep = c.read_reply(timeout=st.get('timeout', 4.0))
                elif kind == 'ext':
                    # Parse/Bind/Execute/Sync of one statement (optionally named, with parameters)
                    sql = st['sql'] + ' ' + c.tag()
                    o['serials'].append(c.serial)
                    o['sent'] = sql
                    msgs = [W.Parse(st.get('name', ''), sql, st.get('types', ())),
                            W.Bind('', st.get('name', ''), st.get('params', ()), st.get('fmts', ()))]
                    if st.get('describe'):
                        msgs.append(W.Describe('P', ''))
                    msgs += [W.Execute(), W.Sync()]
                    c.send(b''.join(msgs))
                    rep = c.read_reply(timeout=st.get('timeout', 4.0))
                elif kind == 'batch':
                    # several Parse(+Bind+Execute) in one Sync batch: parts = [{'sql', 'name'}]
                    msgs = []
                    for pt in st['parts']:
                        if pt.get('bind_only'):
                            # no Parse: Bind + Execute of a name prepared earlier in this session
                            o['serials'].append(named.get(pt['bind_only']))
                            msgs += [W.Bind('', pt['bind_only']), W.Execute()]
                            continue
                        sql = pt['sql'] + ' ' + c.tag()
                        pt['_serial'] = c.serial
                        o['serials'].append(c.serial)
                        msgs.append(W.Parse(pt.get('name', ''), sql))
                        if pt.get('name'):
                            named[pt['name']] = c.serial
                        if pt.get('run', True):
                            msgs += [W.Bind('', pt.get('name', '')), W.Execute()]
                    if st.get('flush'):
                        # the batch is flushed first (as drivers do for a prepare round trip) and synced afterwards
                        from .client import Reply
                        c.send(b''.join(msgs) + W.msg(b'H', b''))
                        # (a batch the pooler refuses at the Flush is answered with ErrorResponse + ReadyForQuery at once,
                        # and the Sync gets a ReadyForQuery of its own)
                        r1 = c.read_reply(timeout=0.5)
                        c.send(W.Sync())
                        r2 = c.read_reply(timeout=st.get('timeout', 4.0))
                        rep = Reply(r1.msgs + r2.msgs, r2.end)
                    else:
                        msgs.append(W.Sync())
                        c.send(b''.join(msgs))
                        rep = c.read_reply(timeout=st.get('timeout', 4.0))
                elif kind == 'raw':
                    c.send(st['bytes'])
                    rep = c.read_reply(timeout=st.get('timeout', 4.0))
                else:
                    raise ValueError(kind)
                o['end'] = rep.end
                o['kinds'] = rep.kinds
                o['status'] = rep.status
                o['tags'] = rep.tags
                o['errors'] = [e.get('M', '') for e in rep.errors]
                o['rows'] = [[(v.decode(errors='replace') if v is not None else None) for v in r] for r in rep.rows[:5]]
                o['cols'] = []
                for t, b in rep.msgs:
                    if t == 'T':
                        n = struct.unpack('!h', b[:2])[0]
                        off = 2
                        for _ in range(n):
                            end = b.index(b'\0', off)
                            o['cols'].append(b[off:end].decode(errors='replace'))
                            off = end + 19
                if rep.end != 'Z':
                    # connection is unusable; stop the session
                    obs.append(o)
                    o['t_mark'] = t_mark
                    break
                o['t_mark'] = t_mark
                obs.append(o)
            c.close()
            # ---- attribute backend events and hooks to the steps
            evs = w.log.snapshot()[mark:]
            time.sleep(0.002)
            for o in obs:
                landed = []
                seen_sql = []
                for e in evs:
                    if e.get('ev') == 'exec' and e.get('client') == name and e.get('n') in o['serials']:
                        landed.append(e['be'])
                    elif e.get('ev') == 'Parse' and e.get('client') == name:
                        m = W_TAG(e.get('sql', ''))
                        if m in o['serials']:
                            landed.append(e['be'])
                    if e.get('ev') == 'Q' and e['i'] >= o['t_mark'] and name in e.get('sql', '') and \
                            any(('n=%d*/' % n) in e['sql'] for n in o['serials']):
                        seen_sql.append(e['sql'])
                o['landed'] = sorted(set(landed))
                by = {}
                for e in evs:
                    if e.get('client') == name and e.get('ev') in ('exec', 'Parse'):
                        n = e.get('n') if e.get('ev') == 'exec' else W_TAG(e.get('sql', ''))
                        if n in o['serials']:
                            by.setdefault(str(n), []).append(e['be'])
                o['landed_by_serial'] = by
                o['forwarded_sql'] = seen_sql
            # untagged queries: did any backend see exactly this text?
            for o, st in zip(obs, s['steps']):
                if st['kind'] == 'q' and not st.get('tag', True):
                    hits = [e for e in evs if e.get('ev') == 'Q' and e.get('sql') == st['sql']]
                    o['landed'] = sorted({e['be'] for e in hits})
                    o['forwarded_sql'] = [e['sql'] for e in hits]
            hooks = w.hooks()
            new = hooks[hook_pos:]
            hook_pos = len(hooks)
            pid = None
            for h in new:
                if h['ev'] == 'startup_ok' and h.get('cid') == c.local_port:
                    pid = h['pid']
            # parser verdicts: qr_parse events following each idle `msg` of this client
            idx = -1
            per_msg = []
            for h in new:
                if h['ev'] == 'msg' and h.get('pid') == pid and h.get('at') == 'idle':
                    per_msg.append({'code': h['code'], 'parse': []})
                elif h['ev'] == 'qr_parse' and per_msg:
                    per_msg[-1]['parse'].append(h['ok'])
                elif h['ev'] == 'route' and h.get('pid') == pid and per_msg:
                    per_msg[-1]['route'] = (h['shard'], h['role'])
            out['sessions'].append({'id': s['id'], 'obs': obs, 'msgs': per_msg})
        out['alive'] = w.alive()
        if not out['alive']:
            out['log'] = w.read_log()[-1500:]
    return out


def W_TAG(sql):
    from .mockpg import TAG_RE
    m = TAG_RE.search(sql)
    return int(m.group(2)) if m else None


def landing_labels(landed):
    """['s1_replica0', ...] -> (role, shard) with 'mixed'/-2 when inconsistent, 'none'/-1 when empty."""
    if not landed:
        return 'none', -1
    roles = {x.split('_')[1].rstrip('0123456789') for x in landed}
    shards = {int(x.split('_')[0][1:]) for x in landed}
    return (roles.pop() if len(roles) == 1 else 'mixed'), (shards.pop() if len(shards) == 1 else -2)
