"""Check C08: prepared-statement caching is invisible to clients."""
import json
import os
import random
import time

from . import core, tlc
from . import pgwire as W
from .client import Client
from .world import World, simple_pool

# statement ids of the model -> (text, parameter types).  q1/q2 are a pair whose (text, #params, types) encodings
# concatenate to the same string; q3 shares its text with q1 but declares its parameter type.
STMTS = {
    'q1': ('SELECT $1 = 112', []),
    'q2': ('SELECT $1 = 1', [20]),
    'q3': ('SELECT $1 = 112', [23]),
    'bad': ('BAD syntax $1', []),
}
BY_TEXT = {(t, tuple(ty)): k for k, (t, ty) in STMTS.items()}


def run_scenario(item):
    rng = random.Random(item['seed'])
    cache = item['cache']
    out = {'id': item['id'], 'recs': [{'ev': 'reset', 'sc': item['id']}], 'notes': [], 'cache': cache}
    with World('ps') as w:
        be = w.backend('p0')
        pool = simple_pool([['127.0.0.1', be.port, 'primary']], pool_size=2)
        pool['prepared_statements_cache_size'] = cache
        w.start(pools={'db': pool})
        clients = {}
        helpers = [Client(w.port, name='H1', timeout=4.0), Client(w.port, name='H2', timeout=4.0)]
        # warm two server connections and learn their identities
        r1 = helpers[0].query('BEGIN')
        e1 = helpers[0].query('SELECT 1').echoes()
        r2 = helpers[1].query('BEGIN')
        e2 = helpers[1].query('SELECT 1').echoes()
        helpers[0].query('COMMIT')
        helpers[1].query('COMMIT')
        conn = {'s1': e1[0]['conn'] if e1 else None, 's2': e2[0]['conn'] if e2 else None}

        def client(n):
            c = clients.get(n)
            if c is None or c.dead:
                c = Client(w.port, name=n, timeout=4.0)
                clients[n] = c
            return c

        def steer(target):
            """Make `target` the only idle server connection; returns the helpers to release afterwards."""
            held = []
            h = helpers[0]
            h.query('BEGIN')
            e = h.query('SELECT 1').echoes()
            got = e[0]['conn'] if e else None
            held.append(h)
            if got == conn.get(target):
                h2 = helpers[1]
                h2.query('BEGIN')
                h2.query('SELECT 1')
                held.append(h2)
                h.query('COMMIT')
                held.remove(h)
            return held

        for sti, st in enumerate(item['steps']):
            c = client(st['c'])
            held = steer(st['s']) if item.get('steer', True) else []
            if st['items'][0]['k'] == 'SP':
                # PREPARE through the simple protocol: the pooler cleans the connection with DEALLOCATE ALL afterwards
                rep = c.query('PREPARE adhoc_%s AS SELECT 1' % st['c'].lower())
                time.sleep(0.02)
                errs = [e.get('M', '') for e in rep.errors]
                out['recs'].append({'ev': 'sqlprep', 'i': sti, 'c': st['c'], 'ok': rep.end == 'Z' and not errs,
                                    'errors': [x[:80] for x in errs], 'cache': cache})
                if rep.end != 'Z':
                    c.dead = True
                    c.close()
                for h in held:
                    h.query('COMMIT')
                continue
            msgs = []
            for it in st['items']:
                if it['k'] == 'P':
                    text, types = STMTS[it['q']]
                    msgs.append(W.Parse(it['n'], text, types))
                elif it['k'] == 'BE':
                    msgs.append(W.Bind('', it['n'], ['7']) + W.Execute())
                elif it['k'] == 'C':
                    msgs.append(W.Close('S', it['n']))
            msgs.append(W.Sync())
            mark = w.log.mark()
            c.send(b''.join(msgs))
            rep = c.read_reply(timeout=4.0)
            closed = rep.end != 'Z'
            if not closed:
                # pgcat may have told the client an error and then closed: look for EOF right away
                pass
            time.sleep(0.01)
            evs = w.log.snapshot()[mark:]
            ex = []
            for e in evs:
                if e['ev'] == 'Execute' and e.get('ok'):
                    ex.append(BY_TEXT.get((e['sql'], tuple(e.get('types', []))), 'unknown:' + e['sql'][:30]))
            errs = [e.get('M', '') for e in rep.errors]
            if closed:
                c.dead = True
                c.close()
            else:
                # a pooler-side client error is followed by a disconnect
                if errs and c.eof_within(0.05):
                    closed = True
                    c.dead = True
            out['recs'].append({'ev': 'batch', 'i': sti, 'c': st['c'], 'items': st['items'], 'exec': ex, 'nerr': len(errs),
                                'errors': [x[:80] for x in errs], 'closed': closed, 'cache': cache,
                                'kinds': rep.kinds})
            for h in held:
                h.query('COMMIT')
        out['alive'] = w.alive()
        for c in list(clients.values()) + helpers:
            c.close()
    return out



def _first_batch_needing_more_than_cache(it):
    """Index of the first batch of the history that refers to more distinct statements (the ones it parses and the ones
    its Bind/Close name, as the client's names stood at that point) or names than the statement cache holds, or None.
    pgcat evicts - and closes on the server - as it reads such a batch, before any of it is sent (the recorded finding
    cache_lt_batch); what the client and the server connection hold afterwards may differ from the reference as well."""
    names = {}
    for j, b in enumerate(it['steps']):
        mine = names.setdefault(b['c'], {})
        refs = set()
        for x in b['items']:
            if x['k'] == 'P':
                mine[x['n']] = x.get('q')
                refs.add(x.get('q'))
            elif x['k'] in ('BE', 'C') and x['n'] in mine:
                refs.add(mine[x['n']])
                if x['k'] == 'C':
                    del mine[x['n']]
        if len(refs) > it['cache'] or len({x['n'] for x in b['items']}) > it['cache']:
            return j
    return None

def check_c08(prop, tier, seed):
    v = core.Verdict(prop, tier, seed)
    rng = random.Random(seed)
    v.assumptions = [
        'the direct-connection reference (Ref in Prepared.tla) covers Parse / Bind+Execute / Close / Sync with PostgreSQL\'s '
        'skip-until-Sync error rule; re-Parse of a live name and Bind of an unknown name are client errors there too and '
        'carry no expectation',
        'executions are attributed to a batch by lock-step timing (helpers are idle while a batch runs)',
    ]
    core.build_pgcat()
    res = tlc.run_tlc('Prepared', 'MC_Prepared.cfg', workers=8, coverage=True)
    v.add_mc('mc:design', res)
    if res.rc != 0:
        v.tool_error('Prepared design rc=%d %s' % (res.rc, res.errors()[:2]))
    r2 = tlc.run_tlc('Prepared', 'MC_Prepared_asbuilt.cfg', workers=8)
    v.add_mc('mc:asbuilt', r2)
    if not r2.invariant_violated:
        v.tool_error('Prepared asbuilt: expected BeliefSound / NoSpurious to fail')
    else:
        v.extra['model_negative_control'] = 'error_pops_one violates %s' % r2.invariant_violated
    r3 = tlc.run_tlc('Prepared', 'MC_Prepared_dev_dealloc.cfg', workers=8)
    v.add_mc('mc:dev_dealloc', r3)
    if not r3.invariant_violated:
        v.tool_error('Prepared dealloc_keeps_belief: expected BeliefSound / NoSpurious to fail')
    n = {'quick': 500, 'thorough': 8000}[tier]
    res = tlc.run_tlc('Gen_Prepared', 'Gen_Prepared.cfg', workers=1, simulate=n * 6, depth=6, seed=seed, timeout=1200)
    if res.rc != 0:
        v.tool_error('Gen_Prepared rc=%d %s' % (res.rc, res.errors()[:2]))
        return v.finish()
    v.add_mc('gen(simulate)', res)
    scen = [o for t, o in res.prints if t == 'SCENARIO']
    seen = set()
    uniq = []
    for s in scen:
        k = json.dumps(s, sort_keys=True)
        if k not in seen:
            seen.add(k)
            uniq.append(s)

    def score(s):
        # favour programs that execute statements, reuse names, mix clients and connections, contain an error
        sc = 0
        names = set()
        for b in s:
            for it in b['items']:
                if it['k'] == 'BE':
                    sc += 2
                if it['k'] == 'P' and it['q'] == 'bad':
                    sc += 1
                names.add((b['c'], it['n']))
        sc += len({b['c'] for b in s}) + len({b['s'] for b in s})
        # a batch that binds a statement the connection got in an earlier batch and then parses one the connection does
        # not have yet: with a full per-connection cache the pooler has to evict - not the one this batch has just used
        on_conn, names = {}, {}
        for b in s:
            have = on_conn.setdefault(b['s'], set())
            mine = names.setdefault(b['c'], {})
            used_old = False
            new_here = set()
            for it in b['items']:
                if it['k'] == 'P':
                    mine[it['n']] = it.get('q')
                    if it.get('q') != 'bad' and it.get('q') not in have and it.get('q') not in new_here:
                        if used_old:
                            sc += 6
                        new_here.add(it.get('q'))
                elif it['k'] == 'BE' and mine.get(it['n']) in have:
                    used_old = True
                elif it['k'] == 'C':
                    mine.pop(it['n'], None)
            have |= new_here
        # a simple-protocol PREPARE (the pooler deallocates everything on that connection afterwards) between the Parse
        # of a statement and a later Bind of it on the same connection
        for i, b in enumerate(s):
            if b['items'][0]['k'] == 'SP':
                before = {(b0['c'], it['n']) for b0 in s[:i] if b0['s'] == b['s'] for it in b0['items']
                          if it['k'] == 'P' and it.get('q') != 'bad'}
                after = {(b1['c'], it['n']) for b1 in s[i + 1:] if b1['s'] == b['s'] for it in b1['items'] if it['k'] == 'BE'}
                sc += 10 if (before & after) else (3 if (before and after) else 0)
        return sc
    uniq.sort(key=lambda s: -score(s))
    chosen = uniq[:n]
    v.extra['programs_generated'] = len(uniq)
    items = [{'id': j + 1, 'steps': s, 'cache': [1, 2, 3, 1, 2, 10][j % 6], 'seed': seed * 19 + j, 'steer': j % 5 != 4}
             for j, s in enumerate(chosen)]
    # enumerated (not sampled) family: two statements put on one connection by single-Parse batches, then a batch that binds
    # the older one and parses a third - with a cache of two the eviction must not hit the statement the batch has just used
    r4 = tlc.run_tlc('Gen_Prepared', 'Gen_Prepared_lru.cfg', workers=8, timeout=600)
    if r4.rc != 0:
        v.tool_error('Gen_Prepared (lru family) rc=%d %s' % (r4.rc, r4.errors()[:2]))
    else:
        v.add_mc('gen(lru family)', r4)
        lru = {json.dumps(o, sort_keys=True): o for t, o in r4.prints if t == 'SCENARIO'}
        v.extra['lru_family_programs'] = len(lru)
        for k in sorted(lru):
            items.append({'id': len(items) + 1, 'steps': lru[k], 'cache': 2, 'seed': seed * 19 + len(items), 'steer': True})
    results = core.run_parallel(run_scenario, items, workers=14)
    recs = []
    ok = []
    for it, r in zip(items, results):
        if 'error' in r:
            v.tool_error('prepared scenario crashed: ' + r['error'][-500:])
            continue
        ok.append((it, r))
        recs += r['recs']
        if not r.get('alive', True):
            v.violation('pgcat_died', {}, replay=it)
        if any(x['ev'] == 'batch' and x['exec'] for x in r['recs']):
            v.nontrivial_case(json.dumps(it['steps'], sort_keys=True) + str(it['cache']))
    v.cov['evaluations'] = len(ok)
    res, info = tlc.validate_trace('Trace_Prepared', 'Trace_Prepared.cfg', recs, timeout=900)
    v.add_mc('trace', res)
    if info['matched'] != info['total']:
        v.tool_error('Trace_Prepared consumed %s of %s: %s' % (info['matched'], info['total'], res.errors()[:2] or res.out[-500:]))
    else:
        v.cov['traces_validated_against_impl'] = len(ok)
    byid = {it['id']: it for it, r in ok}
    for vi in info['viol']:
        d = vi['detail']
        it = byid[vi['sc']]
        items_ = d.get('items', [])
        at = d.get('step', len(it['steps']))
        first_big = _first_batch_needing_more_than_cache(it)
        if first_big is not None and at >= first_big:
            shape = 'cache_lt_batch'      # this or an earlier batch needs more statements than the cache holds
        elif any(b['c'] == d.get('client') and any(x['k'] == 'P' and x.get('q') == 'bad' and any(y['k'] == 'C' for y in b['items'][i + 1:])
                                                     for i, x in enumerate(b['items'])) for b in it['steps'][:at + 1]):
            shape = 'close_behind_error'  # this client sent a Close behind a failing Parse in one batch (a server skips it)
        elif any(x['k'] == 'P' and x.get('q') == 'bad' for b in it['steps'] for x in b['items']):
            shape = 'after_error_in_batch'
        else:
            shape = 'plain'
        if vi['kind'] == 'executed_statements_differ':
            exp, got = d.get('expected', []), d.get('executed', [])
            pair = sorted(set(exp) ^ set(got))
            sig = 'executed_statements_differ/%s' % shape
        else:
            sig = '%s/%s' % (vi['kind'], shape)
        v.violation(sig, d, replay=it)
    # negative control: claim a different statement was executed
    done = False
    for it, r in ok:
        idx = [i for i, x in enumerate(r['recs']) if x['ev'] == 'batch' and x['exec'] == ['q1']]
        if idx:
            seg = [dict(x) for x in r['recs'][:idx[0] + 1]]
            seg[-1]['exec'] = ['q2']
            res2, info2 = tlc.validate_trace('Trace_Prepared', 'Trace_Prepared.cfg', seg)
            if any(x['kind'] == 'executed_statements_differ' for x in info2['viol']):
                v.extra['negative_control'] = 'swapped the executed statement of one batch: rejected'
            else:
                v.tool_error('negative control failed')
            done = True
            break
    if not done:
        v.tool_error('negative control: no batch executed exactly q1')
    for it, r in ok[:2]:
        v.add_sample({'program': it['steps'], 'cache_size': it['cache'], 'trace': r['recs'][1:4]})
    v.cov['rule'] = ('programs = random behaviours (tlc -simulate, seeded) of Gen_Prepared: 4 batches of <= 3 items over '
                     '{Parse(name, stmt), Bind+Execute(name), Close(name)} by 2 clients assigned to 2 server connections, '
                     '4 statements incl. a failing one and a (text, types) pair with colliding encodings; cache sizes 1, 2, 3, 10; '
                     'non-trivial = at least one statement was executed; distinct = (program, cache size)')
    return v.finish()
