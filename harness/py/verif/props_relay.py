"""Check C03: replies and requests are relayed complete, in order, unmodified."""
import json
import os
import random

from . import core, tlc, relay


def check_c03(prop, tier, seed):
    v = core.Verdict(prop, tier, seed)
    rng = random.Random(seed)
    v.assumptions = [
        'byte-level fidelity is decided on the sampled concrete sizes and TCP chunkings only; the buffering / termination '
        'state machine (Relay.tla) is exhaustive for the reply grammar up to MaxLen messages with sizes {small, >= 8196}',
        'the mock backend writes exactly the scripted stream; the harness compares raw bytes on both sides',
    ]
    core.build_pgcat()
    maxlen = 6 if tier == 'quick' else 7
    for name, dev, must in (('design', '{}', True), ('asbuilt', '{"copydone_single_recv"}', False), ('asbuilt2', '{"copyin_keeps_da"}', False),
                            ('single_write', '{"single_write"}', False)):
        cfg = 'MC_Relay_%s_gen.cfg' % name
        with open(os.path.join(tlc.SPEC, cfg), 'w') as f:
            f.write('SPECIFICATION RSpec\nCONSTANTS\n  T = 8196\n  Window = 8196\n  Dev = %s\n  MaxLen = %d\n  Small = 40\n  Big = 9000\n'
                    'INVARIANT AllComplete\n' % (dev, maxlen))
        res = tlc.run_tlc('Relay', cfg, workers=12, timeout=2400, xmx='16g')
        v.add_mc('mc:' + name, res)
        if must and res.rc != 0:
            v.tool_error('Relay %s rc=%d %s' % (name, res.rc, res.errors()[:2]))
        if not must:
            if res.invariant_violated:
                v.extra['model_negative_control'] = 'with the single-recv CopyDone arm TLC finds an incomplete relay'
            else:
                v.tool_error('Relay asbuilt: expected AllComplete to fail')
    glen = 5
    with open(os.path.join(tlc.SPEC, 'Gen_Relay.cfg'), 'w') as f:
        f.write('SPECIFICATION RSpec\nCONSTANTS\n  T = 8196\n  Window = 8196\n  Dev = {}\n  MaxLen = %d\n  Small = 40\n  Big = 9000\nINVARIANT EmitStream\n' % glen)
    res = tlc.run_tlc('Gen_Relay', 'Gen_Relay.cfg', workers=8, timeout=1200)
    if res.rc != 0:
        v.tool_error('Gen_Relay rc=%d' % res.rc)
        return v.finish()
    v.add_mc('gen', res)
    streams = [o for t, o in res.prints if t == 'STREAM']
    v.extra['streams_generated'] = len(streams)

    def feat(st):
        ks = ''.join(k for k, _ in st)
        f = set()
        if 'G' in ks:
            f.add('copyin')
            if ks.count('G') > 1:
                f.add('copyin2')
            i = ks.index('G')
            rest = ks[i + 1:]
            if 'H' in rest or 'D' in rest:
                f.add('after_copyin_more')
        if 'H' in ks:
            f.add('copyout')
        if any(sz >= 8196 for _, sz in st):
            f.add('big')
        if 'E' in ks:
            f.add('error')
        if any(k in ks for k in '123tns'):
            f.add('extended')
        if 'N' in ks or 'S' in ks:
            f.add('async')
        return frozenset(f)
    by = {}
    for st in streams:
        by.setdefault(feat(st), []).append(st)
    n = {'quick': 700, 'thorough': 9000}[tier]
    chosen = []
    keys = sorted(by, key=lambda k: sorted(k))
    for k in keys:
        rng.shuffle(by[k])
    i = 0
    while len(chosen) < n:
        progressed = False
        for k in keys:
            if i < len(by[k]):
                chosen.append(by[k][i])
                progressed = True
        if not progressed:
            break
        i += 1
    chosen = chosen[:n]
    items = [{'id': j + 1, 'stream': st, 'seed': seed * 7907 + j, 'tls': (j % 6 == 5),
              'mode': 'session' if j % 9 == 8 else 'transaction', 'pre': 'lone_sync' if j % 4 == 1 else None}
             for j, st in enumerate(chosen)]
    # back-pressure: some replies with big rows / COPY data are made of many megabytes and meet a client that reads late
    nfl = 0
    for it in items:
        if not it['tls'] and any(k in ('D', 'd') and sz >= 8196 for k, sz in it['stream']) and it['id'] % 5 == 2 \
                and nfl < {'quick': 12, 'thorough': 60}[tier]:
            it['flood'] = True
            nfl += 1
    v.extra['flooded_replies'] = nfl
    # and the other way round: a statement of many megabytes to a server that takes it late (simple protocol only)
    nfq = 0
    for it in items:
        if not it['tls'] and not it.get('flood') and it['id'] % 5 == 3 and not any(k in '123tns' for k, _ in it['stream']) \
                and nfq < {'quick': 8, 'thorough': 40}[tier]:
            it['flood_req'] = True
            nfq += 1
    v.extra['flooded_requests'] = nfq
    results = core.run_parallel(relay.run_relay, items, workers=14)
    recs = []
    for it, r in zip(items, results):
        if 'error' in r:
            v.tool_error('relay scenario failed: %s' % str(r['error'])[-400:])
            continue
        if not r.get('alive', True):
            v.violation('pgcat_died', {'stream': it['stream']}, replay=it)
        recs.append({'sc': it['id'], 'msgs': r['msgs'], 'recvs': r['recvs'], 'client_ok': r['client_ok'],
                     'req_ok': r['req_ok'], 'next_ok': r['next_ok'], 'why': r['why'], 'proto': r['proto'], 'tls': r['tls']})
        v.nontrivial_case(''.join(k for k, _ in r['msgs']) + ':' + ','.join('B' if s >= 8196 else 's' for _, s in r['msgs']))
    v.cov['evaluations'] = len(recs)
    if recs:
        res, info = tlc.validate_trace('Trace_Relay', 'Trace_Relay.cfg', recs, timeout=1500)
        v.add_mc('trace', res)
        if info['matched'] != info['total']:
            v.tool_error('Trace_Relay consumed %s of %s: %s' % (info['matched'], info['total'], res.errors()[:2] or res.out[-400:]))
        else:
            v.cov['traces_validated_against_impl'] = len(recs)
        byid = {it['id']: it for it in items}
        drift = 0
        for vi in info['viol']:
            d = vi['detail']
            if vi['kind'] == 'recv_drift':
                drift += 1
                continue
            if vi['kind'] == 'model_incomplete':
                v.tool_error('Relay model says the design cannot relay %s' % d)
                continue
            ks = ''.join(d.get('kinds', []))
            shape = 'copyin_then_more' if 'G' in ks and any(x in ks[ks.index('G') + 1:] for x in 'HDG') else \
                ('copyin' if 'G' in ks else ('copyout' if 'H' in ks else 'rows'))
            v.violation('%s/shape=%s' % (vi['kind'], shape), d, replay=byid[vi['sc']])
        v.extra['recv_drift'] = drift
        # negative control
        seg = [dict(recs[0])]
        seg[0]['client_ok'] = False
        res2, info2 = tlc.validate_trace('Trace_Relay', 'Trace_Relay.cfg', seg)
        if not any(x['kind'] == 'reply_not_identical' for x in info2['viol']):
            v.tool_error('negative control failed')
        else:
            v.extra['negative_control'] = 'one byte comparison flipped: rejected'
    for r in recs[:3]:
        v.add_sample({'msgs': r['msgs'], 'recv_lens': r['recvs'], 'proto': r['proto'], 'tls': r['tls']})
    v.cov['rule'] = ('reply streams = every word of the reply grammar (Relay.tla) up to %d messages with sizes {small, big}, '
                     'enumerated by TLC; a subset stratified over features (COPY IN/OUT, big rows, errors, extended, async '
                     'messages) is served with concrete sizes around 8196 and random TCP chunkings, 1/6 over TLS, 1/9 in '
                     'session mode; distinct = distinct (kind sequence, size class) words' % glen)
    return v.finish()
