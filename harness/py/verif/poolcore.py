"""PoolCore scenarios: replay of TLC-generated behaviours on the real pgcat, and construction of
the two traces (hook family, backend family) validated by Trace_PoolCore."""
import json
import random
import time

from . import pgwire as W
from .client import Client, send_cancel
from .world import World, simple_pool

KIND_SQL = {
    'begin': 'BEGIN', 'stmt': 'SELECT 1', 'fail': 'BAD syntax here', 'commit': 'COMMIT',
    'set': "SET statement_timeout TO 1234",
    'copyin': 'COPY t FROM STDIN',
    'reset1': 'RESET vacuum_cost_delay',
    'big': 'SELECT 1 /*v:rows=4,size=3000*/',
    'slow': 'SELECT 1 /*v:sleep=720*/',
}
SET_VARIANTS = ["SET statement_timeout TO 1234", "SET work_mem TO '8MB'", "SET search_path TO other",
                "SET lock_timeout = 77", "SET extra_float_digits TO 3"]
PREP_VARIANTS = ["PREPARE sp1 AS SELECT 1", "PREPARE sp2 (int) AS SELECT $1"]
STMT_VARIANTS = ['SELECT 1', 'SELECT now()', 'INSERT INTO t VALUES (1)', 'SELECT 1 /*v:rows=3,size=10*/',
                 'UPDATE t SET a = 1']
COPY2_VARIANTS = ['COPY t FROM STDIN{T0}; COPY u TO STDOUT /*v:rows=2*/{T1}',
                  'COPY t FROM STDIN{T0}; SELECT 1 /*v:rows=4,size=3000*/{T1}',
                  'COPY t FROM STDIN{T0}; COPY u TO STDOUT /*v:rows=3,size=4000*/{T1}']


def run_scenario(item):
    """item: {'id', 'steps' (hist from Gen_PoolCore), 'mode', 'pool_size', 'seed', 'ps_cache'}"""
    rng = random.Random(item.get('seed', 1))
    steps = item['steps']
    mode = item.get('mode', 'transaction')
    pool_size = item.get('pool_size', 1)
    ops = [s['op'] for s in steps]
    early_variant = rng.choice(['close_panic', 'bind_unknown', 'describe_unknown', 'close_panic'])
    ps_cache = 0
    if 'early_return' in ops and early_variant in ('bind_unknown', 'describe_unknown'):
        ps_cache = 10
    if item.get('ps_cache') is not None:
        ps_cache = item['ps_cache']
        if ps_cache == 0 and early_variant != 'close_panic':
            early_variant = 'close_panic'
    general = {'connect_timeout': 500}
    kinds_used = {s2.get('k') for s2 in steps if s2['op'] in ('send', 'send_vanish')}
    user_extra = {}
    if 'slow' in kinds_used:
        user_extra['statement_timeout'] = 400
    if 'idle_tx_timeout' in ops:
        general['idle_client_in_transaction_timeout'] = 1500
    long_waits = 'slow' in kinds_used or bool({'idle_tx_timeout', 'checkout_timeout'} & set(ops))
    if 'reap' in ops and long_waits:
        # keep the reaper out of histories that wait for other timers: the remaining steps are still a behaviour
        steps = [s2 for s2 in steps if s2['op'] != 'reap']
        ops = [s2['op'] for s2 in steps]
    if 'reap' in ops:
        general['idle_timeout'] = 300
    obs = []          # client-side observations / anomalies
    out = {'id': item['id'], 'obs': obs, 'cfg': {'mode': mode, 'pool_size': pool_size, 'ps_cache': ps_cache,
                                                 'early': early_variant, 'mode_at': item.get('mode_at', 'pool'),
                                                 'named_host': bool(item.get('named_host'))}}
    with World('pc') as w:
        cancel_downs = []
        be = w.backend('p0', role='primary')
        host = '127.0.0.1'
        if item.get('named_host'):
            # the server is configured by name and the pooler's DNS cache is on: connections also carry the addresses
            # the name resolved to, and are dropped when those change (they do not, here)
            host = 'localhost'
            general['dns_cache_enabled'] = True
        if item.get('mode_at') == 'user':
            # the pool mode is given for the user and contradicts the pool-level setting: the user's one counts
            user_extra['pool_mode'] = mode
            pool = simple_pool([[host, be.port, 'primary']], pool_size=pool_size,
                               mode='session' if mode == 'transaction' else 'transaction', user=user_extra)
        else:
            pool = simple_pool([[host, be.port, 'primary']], pool_size=pool_size, mode=mode, user=user_extra)
        if ps_cache:
            pool['prepared_statements_cache_size'] = ps_cache
        w.start(general=general, pools={'db': pool})
        clients = {}
        outstanding = {}     # name -> list of expected serials of the pending request
        incopy = {}
        prev_state = {}
        waited = set()
        sent_at = {}      # client -> when its pending request was sent
        settles = []      # (number of hook events seen, pids of clients the model says hold no server)

        def note(kind, **kw):
            obs.append(dict(kind=kind, **kw))

        def log_result(c, reply, serials):
            for e in reply.echoes():
                w.log.add(ev='result', client=c.name, n=serials[0] if serials else -1, echo_c=e.get('c', ''),
                          echo_n=e.get('n', -1), echo_conn=e.get('conn'), serials=serials)

        def read_pending(name, timeout=3.0):
            c = clients[name]
            serials = outstanding.pop(name)
            was_waiting = name in waited
            rep = c.read_reply(timeout=timeout, stop=('Z', 'G'))
            if rep.end == 'G':
                incopy[name] = True
            elif rep.end == 'Z':
                incopy[name] = False
            else:
                note('waiter_not_served' if name in waited else 'no_reply', client=name, end=rep.end, got=rep.brief())
            waited.discard(name)
            # every echo must carry one of the serials of this request and this client
            if any('could not get connection from the pool' in (e.get('M') or '') for e in rep.errors):
                # the design model says a connection is available for this client - unless the model had it waiting and the
                # steps of the harness in between took longer than the connect timeout (then CheckoutTimeout is a
                # behaviour of the model as well)
                if not (was_waiting and time.time() - sent_at.get(name, time.time()) > 0.45):
                    note('waiter_refused', client=name, got=rep.brief())
            for e in rep.echoes():
                ok = e.get('c') == name and e.get('n') in serials
                w.log.add(ev='result', client=name, n=e.get('n') if ok else (serials[0] if serials else -1),
                          echo_c=e.get('c', ''), echo_n=e.get('n', -1), expect=serials)
            return rep

        for idx, st in enumerate(steps):
            op = st['op']
            name = st.get('c')
            if op == 'state':
                # expectation after the pooler's internal steps have settled
                newly_waiting = False
                for n2, pcv in st['pcs'].items():
                    if n2 in outstanding and pcv == 'wait':
                        if n2 not in waited:
                            newly_waiting = True
                        waited.add(n2)
                if newly_waiting:
                    # the model says this request has to wait for a connection: give a pooler that serves it at once (it must
                    # not) the time to do so before the next step is taken, so that the order of the records tells
                    time.sleep(0.08)
                for n2, pcv in st['pcs'].items():
                    if n2 in outstanding and pcv in ('idle', 'intx'):
                        read_pending(n2)
                    elif n2 in outstanding and pcv == 'gone':
                        # the pooler ended this client (e.g. statement timeout): read until it closes
                        outstanding.pop(n2, None)
                        rep = clients[n2].read_reply(timeout=4.0, stop=())
                        if rep.end == 'TIMEOUT':
                            note('client_not_ended', client=n2, got=rep.brief())
                        # (recorded after the read: what the server still does for the message already sent belongs to this
                        # client's session)
                        w.log.add(ev='closing', client=n2)
                        clients[n2].close()
                        # let the late reply of the abandoned statement arrive at (or be discarded with) the connection
                        time.sleep(1.3)
                # binding of the model's "this client holds no server" to the pooler's own bookkeeping: wait (briefly)
                # until the hooks show every such client's last checkout put back, then mark the position
                idle_now = [n2 for n2, pcv in st['pcs'].items()
                            if pcv == 'idle' and n2 in clients and n2 not in outstanding and not clients[n2].dead]
                if idle_now and mode == 'transaction':
                    ports = {clients[n2].local_port: n2 for n2 in idle_now}
                    deadline = time.time() + 1.0
                    while True:
                        hs = w.hooks()
                        pid_of = {ports[h['cid']]: h['pid'] for h in hs if h['ev'] == 'startup_ok' and h.get('cid') in ports}
                        holding = []
                        for n2, p2 in pid_of.items():
                            last_co = None
                            for h in hs:
                                if h['ev'] == 'checkout_ok' and h['pid'] == p2:
                                    last_co = h
                            if last_co is not None and not any(h['ev'] == 'put_back' and h['spid'] == last_co['spid']
                                                               and h['seq'] > last_co['seq'] for h in hs):
                                holding.append(n2)
                        if not holding or time.time() > deadline:
                            break
                        time.sleep(0.01)
                    settles.append((len(hs), [pid_of[n2] for n2 in idle_now if n2 in pid_of]))
                prev_state = st
                continue
            if op == 'connect':
                c = Client(w.port, name=name, timeout=4.0)
                clients[name] = c
                if c.startup.end != 'Z':
                    note('connect_failed', client=name, got=c.startup.brief())
                w.log.add(ev='client_connected', client=name)
            elif op == 'send':
                c = clients[name]
                k = st['k']
                if k == 'copydone':
                    c.send(W.CopyData(b'1\n') + W.CopyDone())
                    outstanding[name] = [c.serial]
                    sent_at[name] = time.time()
                elif k == 'copyfail':
                    c.send(W.CopyData(b'1\n') + W.CopyFail('client gave up'))
                    outstanding[name] = [c.serial]
                    sent_at[name] = time.time()
                elif k == 'local':
                    # a batch the pooler answers itself: a lone Sync
                    c.send(W.Sync())
                    outstanding[name] = []
                    sent_at[name] = time.time()
                else:
                    if k == 'set':
                        sql = rng.choice(SET_VARIANTS) + ' ' + c.tag()
                        serials = [c.serial]
                    elif k == 'prep':
                        sql = rng.choice(PREP_VARIANTS) + ' ' + c.tag()
                        serials = [c.serial]
                    elif k == 'stmt':
                        sql = rng.choice(STMT_VARIANTS) + ' ' + c.tag()
                        serials = [c.serial]
                    elif k == 'copyin2':
                        t0 = ' ' + c.tag()
                        s0 = c.serial
                        t1 = ' ' + c.tag()
                        sql = rng.choice(COPY2_VARIANTS).replace('{T0}', t0).replace('{T1}', t1)
                        serials = [s0, c.serial]
                    else:
                        sql = KIND_SQL[k] + ' ' + c.tag()
                        serials = [c.serial]
                    c.send(W.Q(sql))
                    outstanding[name] = serials
                    sent_at[name] = time.time()
            elif op == 'send_vanish':
                # the client sends a message and its socket is reset while the message is being served
                c = clients[name]
                k = st['k']
                base = {'set': SET_VARIANTS[0], 'stmt': 'SELECT 1', 'prep': PREP_VARIANTS[0]}.get(k) or KIND_SQL[k]
                if k != 'slow':
                    base += ' /*v:sleep=150*/'
                sql = base + ' ' + c.tag()
                mark = w.log.mark()
                c.send(W.Q(sql))
                w.wait_backend_event(lambda e: e.get('ev') == 'exec' and e.get('client') == name and e.get('n') == c.serial,
                                     timeout=0.4, since=mark)
                w.log.add(ev='closing', client=name)
                c.abort()
                outstanding.pop(name, None)
                time.sleep(0.25 if k != 'slow' else 0.5)
            elif op == 'vanish':
                c = clients[name]
                w.log.add(ev='closing', client=name)
                c.abort()
                outstanding.pop(name, None)
            elif op == 'reap':
                # let idle_timeout pass: the pool's reaper closes every idle server connection
                since = len(w.hooks())
                time.sleep(0.75)
                if not w.wait_hook(lambda h: h['ev'] == 'server_drop', timeout=1.5, since=0 if since == 0 else w.hooks()[since - 1]['seq']):
                    note('reaper_did_not_close_idle_connection')
            elif op == 'leave':
                c = clients[name]
                w.log.add(ev='closing', client=name)
                if rng.random() < 0.5:
                    c.terminate()
                else:
                    c.close()
                outstanding.pop(name, None)
            elif op == 'exit_in_tx':
                c = clients[name]
                w.log.add(ev='closing', client=name)
                how = rng.choice(['terminate', 'close', 'abort', 'partial'])
                if how == 'terminate':
                    c.terminate()
                elif how == 'close':
                    c.close()
                elif how == 'abort':
                    c.abort()
                else:
                    c.send(b'Q\x00\x00\x00\x20SEL')   # header + part of the body, then gone
                    c.close()
                out['cfg']['exit'] = how
                outstanding.pop(name, None)
            elif op == 'early_return':
                c = clients[name]
                w.log.add(ev='closing', client=name)
                if early_variant == 'bind_unknown':
                    c.send(W.Bind('', 'nosuchstmt') + W.Execute() + W.Sync())
                elif early_variant == 'describe_unknown':
                    c.send(W.Describe('S', 'nosuchstmt') + W.Sync())
                else:
                    c.send(W.msg(b'C', b'S'))      # Close with no name: decoder fails
                c.eof_within(3.0)
                c.close()
                outstanding.pop(name, None)
            elif op == 'idle_tx_timeout':
                c = clients[name]
                rep = c.read_reply(timeout=5.0)
                if rep.end != 'Z' or not rep.errors:
                    note('no_idle_timeout_error', client=name, got=rep.brief())
                incopy[name] = False
                # the pooler told the client its transaction is over and took the server back:
                # in session mode the statement is silent about what follows, so ownership ends here
                w.log.add(ev='closing', client=name)
            elif op == 'checkout_timeout':
                c = clients[name]
                if name in outstanding:
                    outstanding.pop(name)
                    rep = c.read_reply(timeout=6.0)
                    if rep.end != 'Z' or not rep.errors:
                        note('no_checkout_error', client=name, got=rep.brief())
            elif op == 'cancel':
                c = clients[name]   # (a client that has gone keeps its object: the key stays known to the harness)
                holds = prev_state.get('holds', {}).get(name, False) if prev_state else False
                mark = w.log.mark()
                variant = rng.choice(['valid', 'valid', 'valid', 'valid', 'random', 'wrong_secret'])
                if item.get('family') == 'tx2s':
                    variant = 'valid'      # (histories sampled for the cancel map: the client's own key)
                w.log.add(ev='cancel_sent', client=name, holds=holds, variant=variant)
                if c.key:
                    if variant == 'valid':
                        send_cancel(w.port, c.key[0], c.key[1])
                    elif variant == 'random':
                        send_cancel(w.port, rng.randrange(1, 2 ** 31 - 1), rng.randrange(1, 2 ** 31 - 1))
                    else:
                        send_cancel(w.port, c.key[0], (c.key[1] + 1) % (2 ** 31 - 1))
                if variant != 'valid':
                    time.sleep(0.05)
                elif holds:
                    if not w.wait_backend_event(lambda e: e.get('ev') == 'cancel_request', timeout=3.0, since=mark):
                        note('cancel_not_delivered', client=name)
                else:
                    time.sleep(0.05)
                w.log.add(ev='cancel_done', client=name)
            elif op == 'cancel_down':
                # the server's listener is down for a moment while this client's cancel request is made: the pooler's
                # connect is refused and the request is dropped (established sessions go on)
                c = clients[name]
                holds = prev_state.get('holds', {}).get(name, False) if prev_state else False
                w.log.add(ev='cancel_sent', client=name, holds=holds, variant='listener_down')
                nh = len(w.hooks())
                be.listener_down()
                csock = None
                try:
                    if c.key:
                        csock = send_cancel(w.port, c.key[0], c.key[1], wait=False)
                        # the listener stays down until the pooler has dealt with the request: until it has looked the key
                        # up (`cancel_lookup` hook; a second at most, however slow the machine) and then until Server::cancel
                        # has returned (`cancel_done` hook) - a tenth of a second at most, a refused connect takes no time
                        end = time.time() + 1.0
                        seen_lookup = None
                        while time.time() < end:
                            hs = w.hooks()[nh:]
                            if any(h['ev'] == 'cancel_done' for h in hs):
                                break
                            if seen_lookup is None and any(h['ev'] == 'cancel_lookup' for h in hs):
                                seen_lookup = time.time()
                                end = min(end, seen_lookup + 0.1)
                            time.sleep(0.005)
                finally:
                    be.listener_up()
                    if csock is not None:
                        csock.close()
                time.sleep(0.01)
                w.log.add(ev='cancel_done', client=name)
                cancel_downs.append(time.time())
        # a request the pooler kept (it must not) would be tried again later: give it the time to show
        if cancel_downs:
            time.sleep(max(0.0, 1.1 - (time.time() - cancel_downs[-1])))
        # ---- wind down: everyone leaves, wait until pgcat has dropped every client task
        # (a client that is still waiting for a connection gets it once the others have left: let it finish first, otherwise
        # its statement runs after the record of its leaving and the ownership bookkeeping of the trace has no end for it)
        still_waiting = [n2 for n2 in clients if n2 in outstanding and n2 in waited and not clients[n2].dead]
        for name, c in clients.items():
            if name in still_waiting:
                continue
            w.log.add(ev='closing', client=name)
            c.close()
        for name in still_waiting:
            serials = outstanding.pop(name, [])
            rep = clients[name].read_reply(timeout=3.0, stop=('Z', 'G'))
            # served, or told that no connection came within the connect timeout: both are behaviours of the model here
            for e in rep.echoes():
                ok = e.get('c') == name and e.get('n') in serials
                w.log.add(ev='result', client=name, n=e.get('n') if ok else (serials[0] if serials else -1),
                          echo_c=e.get('c', ''), echo_n=e.get('n', -1), expect=serials)
            w.log.add(ev='closing', client=name)
            clients[name].close()
        deadline = time.time() + 5.0
        started = None
        while time.time() < deadline:
            hooks = w.hooks()
            started = {h['pid'] for h in hooks if h['ev'] == 'startup_ok'}
            dropped = {h['pid'] for h in hooks if h['ev'] == 'client_drop' and not h.get('cancel')}
            if started <= dropped:
                break
            time.sleep(0.01)
        else:
            note('client_tasks_still_alive', n=len(started - dropped))
        time.sleep(0.03)
        # ---- epilogue: with everyone gone the whole capacity must be there again, and whatever connection a
        # newcomer gets must be clean (this is where a hand-off that the scripted steps did not reach happens)
        if w.alive():
            probes = []
            for i in range(pool_size):
                try:
                    z = Client(w.port, name='Z%d' % i, timeout=4.0)
                except OSError:
                    note('capacity_lost', probe=i, why='connect failed')
                    continue
                probes.append(z)
                w.log.add(ev='client_connected', client=z.name)
                def probe_query(z, sql):
                    # whatever result rows come back must have been produced for this very statement
                    rep = z.query(sql)
                    for e in rep.echoes():
                        w.log.add(ev='result', client=z.name, n=z.serial, echo_c=e.get('c', ''), echo_n=e.get('n', -1))
                    return rep
                r1 = probe_query(z, 'BEGIN')
                r2 = probe_query(z, 'SELECT 1') if r1.end == 'Z' else r1
                if r2.end != 'Z' or any('could not get connection' in (e.get('M') or '') for e in r1.errors + r2.errors):
                    note('capacity_lost', probe=i, of=pool_size, got=(r1.brief() + ' / ' + r2.brief())[:160])
            if item.get('restart_epilogue') and all(z.sock is not None for z in probes):
                # PoolCore.ServerRestart: with nobody holding a connection the server goes away, refuses start-ups with a
                # FATAL error for a moment, and comes back: the whole capacity must be there again
                for z in probes:
                    z.query('COMMIT')
                    w.log.add(ev='closing', client=z.name)
                    z.close()        # (in session mode a connected client keeps its server)
                probes = []
                time.sleep(0.1)
                be.fault('startup_error')
                time.sleep(0.05)
                # enough statements while the server is away for the dead pooled connections to be found out and for
                # new start-ups to be attempted and refused
                for _ in range(2 * pool_size + 1):
                    try:
                        z0 = Client(w.port, name='W', timeout=4.0)
                        z0.query('SELECT 1', timeout=3.0)
                        z0.close()
                    except OSError:
                        pass
                be.fault('up')
                time.sleep(0.2)
                # connections pooled before the restart are dead and are found out one failed statement at a time: that is
                # not lost capacity; use them up first
                for _ in range(pool_size + 1):
                    try:
                        z0 = Client(w.port, name='W', timeout=4.0)
                        z0.query('SELECT 1', timeout=3.0)
                        z0.close()
                    except OSError:
                        pass
                again = []
                for i2 in range(pool_size):
                    try:
                        z2 = Client(w.port, name='R%d' % i2, timeout=4.0)
                    except OSError:
                        note('capacity_lost', probe=i2, why='connect failed after server restart')
                        continue
                    again.append(z2)
                    w.log.add(ev='client_connected', client=z2.name)
                    r1 = z2.query('BEGIN')
                    r2 = z2.query('SELECT 1') if r1.end == 'Z' else r1
                    if r2.end != 'Z' or r1.errors or r2.errors:
                        note('capacity_lost', probe=i2, of=pool_size, after='server_restart', got=(r1.brief() + ' / ' + r2.brief())[:160])
                for z2 in again:
                    z2.query('COMMIT')
                    w.log.add(ev='closing', client=z2.name)
                    z2.close()
            for z in probes:
                rep = z.query('COMMIT')
                for e in rep.echoes():
                    w.log.add(ev='result', client=z.name, n=z.serial, echo_c=e.get('c', ''), echo_n=e.get('n', -1))
                w.log.add(ev='closing', client=z.name)
                z.close()
            deadline = time.time() + 3.0
            while time.time() < deadline:
                hooks = w.hooks()
                started = {h['pid'] for h in hooks if h['ev'] == 'startup_ok'}
                dropped = {h['pid'] for h in hooks if h['ev'] == 'client_drop' and not h.get('cancel')}
                if started <= dropped:
                    break
                time.sleep(0.01)
            time.sleep(0.03)
        out['alive'] = w.alive()
        hooks = w.hooks()
        be_events = w.log.snapshot()
        if not out['alive']:
            note('pgcat_died', log=w.read_log()[-1500:])
        out['hook_trace'] = hook_trace(hooks, item['id'], pool_size, mode, be_events, settles)
        out['backend_trace'] = backend_trace(be_events, item['id'], pool_size, mode, ps_cache > 0)
        out['n_hooks'] = len(hooks)
        out['n_backend'] = len(be_events)
        mock_exc = [e for e in be_events if e.get('ev') == 'mock_exception']
        if mock_exc:
            out['mock_exception'] = mock_exc[0]
    return out


def hook_trace(hooks, sc, pool_size, mode, be_events=(), settles=()):
    """Renumber ids and keep the events Trace_PoolCore's hook family understands."""
    pid = {}
    spid = {}
    recs = [{'ev': 'reset', 'sc': sc, 'pool_size': pool_size, 'txmode': mode == 'transaction'}]

    def P(x):
        if x not in pid:
            pid[x] = len(pid) + 1
        return pid[x]

    def S(x):
        if x not in spid:
            spid[x] = len(spid) + 1
        return spid[x]

    # what the backends saw for the k-th cancel attempt of the harness (lock-step: FIFO)
    attempts = []
    strays = []      # CancelRequests that reached a backend outside every attempt of the harness
    cur = None
    sess_key = {}
    last_user = {}
    for e in be_events:
        if e['ev'] == 'connect':
            sess_key[e['spid']] = None
        if e['ev'] == 'exec':
            # (a statement of the pooler's own - the clean-up when a connection is given back - ends the previous
            # client's use of the session just as another client's statement does)
            last_user[e['spid']] = e.get('client') or '(pooler)'
        if e['ev'] == 'cancel_sent':
            cur = {'reqs': [], 'variant': e.get('variant'), 'client': e.get('client')}
            attempts.append(cur)
        elif e['ev'] == 'cancel_done':
            cur = None
        elif e['ev'] == 'cancel_request':
            if cur is not None:
                cur['reqs'].append(e)
            else:
                # the only request the pooler could still be working on is one whose connect was refused
                origin = max([k for k, a in enumerate(attempts) if a['variant'] == 'listener_down'], default=-1)
                requester = attempts[origin]['client'] if origin >= 0 else None
                strays.append({'req': e, 'origin': origin,
                               'used_by_other': last_user.get(e['target_pid']) not in (None, requester)})
    nlook = 0
    keys = {}
    for s0 in be_events:
        if s0['ev'] == 'connect' and 'key' in s0:
            keys[s0['spid']] = s0['key']
    marks = {}
    for pos, pids in settles:
        marks.setdefault(pos, []).append(pids)
    for hi, h in enumerate(list(hooks) + [{'ev': '_end'}]):
        for pids in marks.get(hi, []):
            recs.append({'ev': 'settle', 'idle': [P(x) for x in pids]})
        ev = h['ev']
        if ev == 'server_connect':
            recs.append({'ev': ev, 's': S(h['spid'])})
        elif ev == 'checkout_ok':
            recs.append({'ev': ev, 'c': P(h['pid']), 's': S(h['spid'])})
        elif ev == 'claim':
            recs.append({'ev': ev, 'c': P(h['pid']), 's': S(h['spid'])})
        elif ev == 'map_remove':
            recs.append({'ev': ev, 'c': P(h['pid'])})
        elif ev == 'client_drop':
            if h.get('cancel'):
                continue
            recs.append({'ev': ev, 'c': P(h['pid'])})
        elif ev == 'put_back':
            recs.append({'ev': ev, 's': S(h['spid']), 'bad': h['bad'], 'in_tx': h['in_tx'],
                         'in_copy': h['in_copy'], 'da': h['da'], 'dirty': h['dirty']})
        elif ev == 'server_drop':
            recs.append({'ev': ev, 's': S(h['spid'])})
        elif ev == 'cancel_lookup':
            att = attempts[nlook] if nlook < len(attempts) else {'reqs': [], 'variant': '?'}
            nlook += 1
            reqs = att['reqs']
            target = 0
            if reqs:
                target = S(reqs[0]['target_pid']) if reqs[0]['target_pid'] in spid else -1
            # a request with a key nobody was issued is a client of its own
            who = P(h['pid']) if att['variant'] in ('valid', 'listener_down') else P(('invalid-key', nlook))
            recs.append({'ev': ev, 'c': who, 'found': h['found'], 's': S(h['spid']) if h['found'] else 0,
                         'delivered': len(reqs), 'target': target, 'variant': att['variant'],
                         'keys_ok': all(keys.get(r['target_pid']) == r['target_key'] for r in reqs)})
    lookup_pids = [h['pid'] for h in hooks if h['ev'] == 'cancel_lookup']
    for st in strays:
        k = st['origin']
        recs.append({'ev': 'cancel_stray', 'c': P(lookup_pids[k]) if 0 <= k < len(lookup_pids) else 0,
                     'origin': 'listener_down' if k >= 0 else 'none',
                     'target': S(st['req']['target_pid']) if st['req']['target_pid'] in spid else -1,
                     'used_by_other': st['used_by_other']})
    recs.append({'ev': 'end_hooks'})
    return {'recs': recs, 'nc': max(1, len(pid)), 'ns': max(1, len(spid))}


def dirt_of(before, caching):
    """Parts of a session snapshot that make it unclean for the next client."""
    what = []
    if before['tx'] != 'I':
        what.append('tx=' + before['tx'])
    if before['copy']:
        what.append('copy=' + before['copy'])
    g = {k: v for k, v in before['gucs'].items() if k != 'application_name'}
    if g:
        what.append('guc')
    if before['role']:
        what.append('role')
    if before['sqlprep']:
        what.append('sqlprepared')
    names = [n for n in before['prepared'] if not (caching and n.startswith('PGCAT_'))]
    if names:
        what.append('named_statement')
    return what


def backend_trace(events, sc, pool_size, mode, caching):
    cid = {}
    sid = {}
    recs = [{'ev': 'reset', 'sc': sc, 'pool_size': pool_size, 'txmode': mode == 'transaction'}]

    def C(x):
        if not x:
            return 0
        if x not in cid:
            cid[x] = len(cid) + 1
        return cid[x]

    def S(e):
        k = (e['be'], e['conn'])
        if k not in sid:
            sid[k] = len(sid) + 1
        return sid[k]

    for e in events:
        ev = e['ev']
        if ev == 'exec' and 'after' in e:
            what = dirt_of(e['before'], caching)
            session = [x for x in what if not x.startswith('tx=') and not x.startswith('copy=')]
            recs.append({'ev': 'exec', 's': S(e), 'c': C(e.get('client')), 'txb': e['before']['tx'],
                         'copyb': e['before']['copy'] or 'no', 'dirtb': bool(session),
                         'txa': e['after']['tx'], 'copya': e['after']['copy'] or 'no',
                         'what': ','.join(what), 'kind': e.get('kind', '')})
        elif ev == 'Parse':
            what = dirt_of(e['before'], caching)
            session = [x for x in what if not x.startswith('tx=') and not x.startswith('copy=')]
            recs.append({'ev': 'exec', 's': S(e), 'c': C(e.get('client')), 'txb': e['before']['tx'],
                         'copyb': e['before']['copy'] or 'no', 'dirtb': bool(session),
                         'txa': e['before']['tx'], 'copya': e['before']['copy'] or 'no',
                         'what': ','.join(what), 'kind': 'parse'})
        elif ev == 'unexpected_during_copy':
            # the previous client's COPY was still open when this message arrived
            recs.append({'ev': 'exec', 's': S(e), 'c': C(e.get('msgclient')), 'txb': 'I', 'copyb': 'in', 'dirtb': False,
                         'txa': 'I', 'copya': 'no', 'what': 'copy=in', 'kind': 'swallowed'})
        elif ev == 'closing':
            recs.append({'ev': 'closing', 'c': C(e['client'])})
        elif ev in ('eof', 'terminate', 'sockerr'):
            recs.append({'ev': 'session_end', 's': S(e)})
        elif ev == 'result':
            recs.append({'ev': 'result', 'c': C(e['client']), 'n': e['n'], 'echo_c': C(e['echo_c']),
                         'echo_n': e['echo_n']})
    return {'recs': recs, 'nc': max(1, len(cid)), 'ns': max(1, len(sid))}
