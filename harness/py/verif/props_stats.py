"""Check C18: admin statistics count every client, server connection and transaction once."""
import json
import os
import random
import time

from . import core, tlc
from . import pgwire as W
from .client import Client
from .world import World, simple_pool


def rows_of(admin, sql):
    """Run an admin SHOW on an open admin connection; list of dict rows."""
    import struct
    admin.send(W.Q(sql))
    rep = admin.read_reply(5.0)
    cols = []
    for t, b in rep.msgs:
        if t == 'T':
            n = struct.unpack('!h', b[:2])[0]
            off = 2
            for _ in range(n):
                end = b.index(b'\0', off)
                cols.append(b[off:end].decode())
                off = end + 19
    out = []
    for r in rep.rows:
        out.append({c: (v.decode(errors='replace') if v is not None else None) for c, v in zip(cols, r)})
    return out, rep.end == 'Z'


def run_scenario(item):
    rng = random.Random(item['seed'])
    out = {'id': item['id'], 'recs': [{'ev': 'reset', 'sc': item['id']}], 'notes': []}
    recs = out['recs']
    with World('st') as w:
        be = w.backend('p0')
        be1 = w.backend('p1')
        pool = simple_pool(None, pool_size=4, shards={
            '0': {'database': 'db', 'servers': [['127.0.0.1', be.port, 'primary']]},
            '1': {'database': 'db', 'servers': [['127.0.0.1', be1.port, 'primary']]}})
        pool['shard_id_regex'] = r'/\* shard_id: (\d+) \*/'
        pool['sharding_function'] = 'pg_bigint_hash'
        pool['users']['1'] = {'username': 'um', 'password': 'secretm', 'pool_size': 2}
        w.start(pools={'db': pool})
        admin = w.admin()
        clients = {}
        intx = {}
        kinds = []

        def sample():
            time.sleep(0.03)
            crow, ok1 = rows_of(admin, 'SHOW CLIENTS')
            prow, ok2 = rows_of(admin, 'SHOW POOLS')
            srow, ok3 = rows_of(admin, 'SHOW SERVERS')
            trow, ok4 = rows_of(admin, 'SHOW STATS')
            if not (ok1 and ok2 and ok3 and ok4):
                out['notes'].append('admin SHOW failed')
                return
            mine = [r for r in crow if r['database'] == 'db' and r['user'] == 'u']
            stray = [r for r in crow if not (r['database'] == 'db' and r['user'] == 'u')
                     and not (r['database'] == 'pgcat' and r['user'] == 'admin')]
            lrow, ok5 = rows_of(admin, 'SHOW LISTS')
            lists = {r['list']: int(r['items']) for r in lrow} if ok5 else {}
            names = [r['application_name'] for r in mine]
            cl = {}
            for r in mine:
                cl[r['application_name']] = {'state': r['state'], 'xact': int(r['transaction_count']), 'query': int(r['query_count'])}
            p = [r for r in prow if r['database'] == 'db' and r['user'] == 'u']
            pools = {k: int(p[0][k]) for k in ('cl_idle', 'cl_active', 'cl_waiting', 'sv_active', 'sv_idle')} if p else \
                {'cl_idle': -1, 'cl_active': -1, 'cl_waiting': -1, 'sv_active': -1, 'sv_idle': -1}
            srv = [r for r in srow if r['database_name'] == 'db' and r['user'] == 'u']
            tot = [r for r in trow if r['database'] == 'db' and r['user'] == 'u']
            totals = {'xact': sum(int(r['total_xact_count']) for r in tot), 'query': sum(int(r['total_query_count']) for r in tot),
                      'sent': sum(int(r['total_sent']) for r in tot), 'received': sum(int(r['total_received']) for r in tot),
                      'errors': sum(int(r['total_errors']) for r in tot)}
            live = len([s for s in be.live_sessions() + be1.live_sessions() if s.user == 'u'])
            recs.append({'ev': 'servers', 'live': live})
            recs.append({'ev': 'sample', 'clients': cl, 'duplicate_rows': len(names) != len(set(names)), 'pools': pools,
                         'server_rows': len(srv), 'totals': totals, 'kinds': list(kinds), 'stray_rows': len(stray),
                         'lists_clients': lists.get('free_clients', -1) + lists.get('used_clients', 0)})

        def request(n, sql=None, raw=None, ends=None):
            c = clients[n]
            mark = w.log.mark()
            if raw is not None:
                c.send(raw)
                rep = c.read_reply(4.0)
            else:
                # an earlier refused request leaves its shard number selected: every statement names shard 0 again
                rep = c.query('/* shard_id: 0 */ ' + sql)
            if rep.end != 'Z':
                out['notes'].append('no reply to %s: %s' % (sql or 'raw', rep.brief()[:80]))
                return None
            ran = [e for e in w.log.snapshot()[mark:] if e.get('ev') == 'exec' and e.get('client') == n]
            if not ran and rep.error:
                # answered by the pooler itself, no server involved
                recs.append({'ev': 'refused', 'c': n})
                return rep
            over = rep.status == 'I'
            recs.append({'ev': 'request', 'c': n, 'ends': over})
            intx[n] = not over
            return rep

        for st in item['steps']:
            op, n, a = st['op'], st['c'], st['a']
            if op == 'connect':
                c = Client(w.port, name=n, timeout=4.0, params=[('application_name', n)])
                if c.startup.end == 'Z':
                    clients[n] = c
                    intx[n] = False
                    recs.append({'ev': 'connect', 'c': n})
            elif op == 'failed_login':
                how = rng.choice(['unknown_user', 'wrong_password', 'unknown_db'])
                try:
                    if how == 'unknown_user':
                        Client(w.port, user='nobody', name=n, timeout=2.0).close()
                    elif how == 'wrong_password':
                        Client(w.port, user='um', password='wrong', name=n, timeout=2.0).close()
                    else:
                        Client(w.port, db='nodb', name=n, timeout=2.0).close()
                except OSError:
                    pass
            elif op == 'request' and n in clients:
                if a == 'stmt':
                    kinds.append('stmt')
                    request(n, 'BEGIN' if not intx[n] else rng.choice(['SELECT 1', 'INSERT INTO t VALUES (1)']))
                elif a == 'last':
                    kinds.append('last')
                    if intx[n]:
                        request(n, rng.choice(['COMMIT', 'ROLLBACK']))
                    else:
                        if rng.random() < 0.3:
                            kinds.append('extended')
                            c = clients[n]
                            request(n, raw=W.Parse('', '/* shard_id: 0 */ SELECT 1 ' + c.tag()) + W.Bind('', '') + W.Execute() + W.Sync())
                        else:
                            request(n, rng.choice(['SELECT 1', 'UPDATE t SET a = 1', 'BAD syntax']))
                elif a == 'copy':
                    if intx[n]:
                        kinds.append('stmt')
                        request(n, 'SELECT 2')
                    else:
                        kinds.append('copy')
                        c = clients[n]
                        c.send(W.Q('/* shard_id: 0 */ COPY t FROM STDIN ' + c.tag()))
                        r1 = c.read_reply(4.0, stop=('G', 'Z'))
                        if r1.end == 'G':
                            c.send(W.CopyData(b'1\n') + W.CopyDone())
                            r2 = c.read_reply(4.0)
                            if r2.end == 'Z':
                                recs.append({'ev': 'request', 'c': n, 'ends': True})
                            else:
                                out['notes'].append('copy not completed')
            elif op == 'refused' and n in clients and not intx[n]:
                # a request the pooler has to refuse before any server is involved: there is no shard 7
                kinds.append('refused')
                c = clients[n]
                mark = w.log.mark()
                rep = c.query('/* shard_id: 7 */ SELECT 1')
                ran = [e for e in w.log.snapshot()[mark:] if e.get('ev') == 'exec' and e.get('client') == n]
                if rep.end == 'Z' and rep.error and not ran:
                    recs.append({'ev': 'refused', 'c': n})
                elif rep.end == 'Z' and ran:
                    recs.append({'ev': 'request', 'c': n, 'ends': rep.status == 'I'})
                    out['notes'].append('request for a missing shard was executed')
                else:
                    out['notes'].append('refused request: ' + rep.brief()[:80])
            elif op == 'cancel':
                # a CancelRequest connection, with the key of a connected client or with a key nobody holds
                kinds.append('cancel')
                from .client import send_cancel
                if a == 'valid' and n in clients and clients[n].key:
                    send_cancel(w.port, clients[n].key[0], clients[n].key[1])
                else:
                    send_cancel(w.port, rng.randrange(1, 2 ** 31), rng.randrange(1, 2 ** 31))
                time.sleep(0.05)
            elif op == 'leave' and n in clients:
                c = clients.pop(n)
                if a == 'clean':
                    rng.choice([c.terminate, c.close, c.abort])()
                else:
                    kinds.append('abnormal_exit')
                    c.send(rng.choice([W.msg(b'C', b''), W.msg(b'C', b'S'), W.msg(b'D', b''), W.msg(b'B', b'')]))
                    c.eof_within(2.0)
                    c.close()
                recs.append({'ev': 'leave', 'c': n})
                time.sleep(0.08)
            sample()
        for n, c in list(clients.items()):
            c.close()
            recs.append({'ev': 'leave', 'c': n})
        time.sleep(0.15)
        sample()
        out['alive'] = w.alive()
        admin.close()
    return out


def check_c18(prop, tier, seed):
    v = core.Verdict(prop, tier, seed)
    v.assumptions = [
        'the ledger: a request = one Query message or one Sync-terminated batch answered by a server; a transaction = a '
        'request after which the server reported idle; COPY FROM STDIN .. CopyDone outside a transaction is one request and one '
        'transaction',
        'samples are taken at quiescent points (lock-step, 30 ms after the last reply); reload is excluded',
    ]
    core.build_pgcat()
    res = tlc.run_tlc('Stats', 'MC_Stats.cfg', workers=4, coverage=True)
    v.add_mc('mc:design', res)
    if res.rc != 0:
        v.tool_error('Stats design rc=%d %s' % (res.rc, res.errors()[:2]))
    for d in ('abnormal_exit_keeps_row', 'copy_counts_twice', 'refused_request_leaves_waiting', 'cancel_registers_client'):
        r2 = tlc.run_tlc('Stats', 'MC_Stats_dev_%s.cfg' % d, workers=4)
        v.add_mc('mc:dev:' + d, r2)
        if not r2.invariant_violated:
            v.tool_error('Stats deviation %s not detected' % d)
        else:
            v.extra.setdefault('model_negative_control', []).append('%s violates %s' % (d, r2.invariant_violated))
    # counters of any size, histories of any length: the three invariants (with the types) are inductive for the design
    # (Apalache, symbolic); they are not when COPY is counted twice
    for name, cinit, init, length, expect in (('initial', 'ConstInit', 'Init', 0, 'ok'), ('step', 'ConstInit', 'IndInit', 1, 'ok'),
                                              ('negative_control_copy_twice', 'ConstInitCopyTwice', 'IndInit', 1, 'violated')):
        got = tlc.run_apalache('StatsApa', cinit, init, 'IndInv', length, timeout=900)
        v.extra.setdefault('apalache_inductive_invariant', []).append({'check': name, 'result': got})
        if got != expect:
            v.tool_error('Apalache %s: expected %s, got %s' % (name, expect, got))
    n = {'quick': 220, 'thorough': 4000}[tier]
    res = tlc.run_tlc('Gen_Stats', 'Gen_Stats.cfg', workers=1, simulate=n * 3, depth=11, seed=seed, timeout=900)
    if res.rc != 0:
        v.tool_error('Gen_Stats rc=%d %s' % (res.rc, res.errors()[:2]))
        return v.finish()
    v.add_mc('gen(simulate)', res)
    seen = set()
    scen = []
    for t, o in res.prints:
        if t == 'SCENARIO':
            k = json.dumps(o)
            if k not in seen:
                seen.add(k)
                scen.append(o)

    def score(s):
        ops = [(x['op'], x['a']) for x in s]
        return len({x for x in ops}) + sum(1 for x in ops if x[0] == 'request')
    scen.sort(key=lambda s: -score(s))
    # directed histories (behaviours of Stats.tla as well): a client leaves inside a transaction while it holds another
    # server connection than the one it used before, which meanwhile serves somebody else's open transaction
    directed = []
    for x, y in (('A', 'B'), ('B', 'C'), ('C', 'A')):
        for how in ('clean', 'abnormal'):
            directed.append([{'op': 'connect', 'c': x, 'a': ''}, {'op': 'connect', 'c': y, 'a': ''},
                             {'op': 'request', 'c': x, 'a': 'last'}, {'op': 'request', 'c': y, 'a': 'stmt'},
                             {'op': 'request', 'c': x, 'a': 'stmt'}, {'op': 'leave', 'c': x, 'a': how},
                             {'op': 'request', 'c': y, 'a': 'last'}, {'op': 'leave', 'c': y, 'a': 'clean'}])
    chosen = directed + scen[:n - len(directed)]
    items = [{'id': j + 1, 'steps': s, 'seed': seed * 37 + j} for j, s in enumerate(chosen)]
    results = core.run_parallel(run_scenario, items, workers=14)
    recs = []
    ok = []
    for it, r in zip(items, results):
        if 'error' in r:
            v.tool_error('stats scenario crashed: ' + r['error'][-500:])
            continue
        ok.append((it, r))
        recs += r['recs']
        if not r.get('alive', True):
            v.violation('pgcat_died', {}, replay=it)
        v.nontrivial_case(json.dumps(it['steps']))
    v.cov['evaluations'] = len(ok)
    res, info = tlc.validate_trace('Trace_Stats', 'Trace_Stats.cfg', recs, timeout=900)
    v.add_mc('trace', res)
    if info['matched'] != info['total']:
        v.tool_error('Trace_Stats consumed %s of %s: %s' % (info['matched'], info['total'], res.errors()[:2] or res.out[-500:]))
    else:
        v.cov['traces_validated_against_impl'] = len(ok)
    byid = {it['id']: (it, r) for it, r in ok}
    for vi in info['viol']:
        it, r = byid[vi['sc']]
        d = vi['detail']
        ops = [(x['op'], x['a']) for x in it['steps']]
        tagk = ''
        if vi['kind'] in ('transaction_count_wrong', 'totals_wrong') and 'copy' in (d.get('kinds') or []):
            tagk = '/after=copy_outside_transaction'
        elif vi['kind'] in ('client_row_without_client', 'pool_client_states_do_not_add_up', 'not_zero_after_everyone_left') and \
                ('leave', 'abnormal') in ops:
            tagk = '/after=abnormal_exit'
        v.violation(vi['kind'] + tagk, d, replay=it)
    done = False
    for it, r in ok:
        idx = [i for i, x in enumerate(r['recs']) if x['ev'] == 'sample' and x['clients']]
        if idx:
            seg = [json.loads(json.dumps(x)) for x in r['recs'][:idx[0] + 1]]
            k0 = sorted(seg[-1]['clients'])[0]
            seg[-1]['clients'][k0]['query'] += 1
            res2, info2 = tlc.validate_trace('Trace_Stats', 'Trace_Stats.cfg', seg)
            if any(x['kind'] == 'query_count_wrong' for x in info2['viol']):
                v.extra['negative_control'] = 'bumped one query_count in a sample: rejected'
            else:
                v.tool_error('negative control failed')
            done = True
            break
    if not done:
        v.tool_error('negative control: no sample with clients')
    for it, r in ok[:2]:
        v.add_sample({'steps': [(x['op'], x['c'], x['a']) for x in it['steps']], 'trace': r['recs'][1:5]})
    v.cov['rule'] = ('histories = random behaviours (tlc -simulate, seeded) of Gen_Stats: 9 steps over {connect, failed login, '
                     'request (opens / continues / ends a transaction, COPY), refused request (no such shard), clean or abnormal exit} of 3 clients; after every step '
                     'SHOW CLIENTS / POOLS / SERVERS / STATS are sampled; distinct = histories')
    return v.finish()
