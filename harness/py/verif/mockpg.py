"""Mock PostgreSQL backend: protocol-faithful enough to be ground truth for what pgcat
does to a server session.  Stdlib only, one thread per connection.

Everything a backend observes goes to one EventLog (a lock-protected list); the order of
events inside one connection is the order on that connection's byte stream.

Statements are recognised by a small SQL reader.  Client statements carry a tag comment
`/*c=<client>;n=<serial>*/` and optional directives `/*v:rows=3,size=100,err,sleep=50,hang,
close,notice,chunk=7*/`.
"""
import hashlib
import json
import random
import re
import socket
import struct
import threading
import time

from . import pgwire as W

TAG_RE = re.compile(r'/\*c=([A-Za-z0-9_]+);n=(\d+)\*/')
DIR_RE = re.compile(r'/\*v:([^*]*)\*/')
REPORTED = ['application_name', 'client_encoding', 'DateStyle', 'TimeZone',
            'standard_conforming_strings', 'server_version', 'integer_datetimes',
            'IntervalStyle', 'is_superuser', 'session_authorization']
GUC_CANON = {g.lower(): g for g in REPORTED}
GUC_CANON.update({'statement_timeout': 'statement_timeout', 'search_path': 'search_path',
                  'work_mem': 'work_mem', 'lock_timeout': 'lock_timeout',
                  'extra_float_digits': 'extra_float_digits'})
DEFAULT_GUCS = {
    'application_name': '', 'client_encoding': 'UTF8', 'DateStyle': 'ISO, MDY',
    'TimeZone': 'Etc/UTC', 'standard_conforming_strings': 'on', 'server_version': '14.0',
    'integer_datetimes': 'on', 'IntervalStyle': 'postgres', 'is_superuser': 'off',
    'session_authorization': 'u',
    'statement_timeout': '0', 'search_path': '"$user", public', 'work_mem': '4MB',
    'lock_timeout': '0', 'extra_float_digits': '1',
}


class EventLog:
    def __init__(self):
        self.lock = threading.Lock()
        self.events = []

    def add(self, **kw):
        with self.lock:
            kw['i'] = len(self.events)
            self.events.append(kw)
        return kw

    def snapshot(self):
        with self.lock:
            return list(self.events)

    def mark(self):
        with self.lock:
            return len(self.events)


_PID = [1000]
_PID_LOCK = threading.Lock()


def next_pid():
    with _PID_LOCK:
        _PID[0] += 1
        return _PID[0]


def split_sql(sql):
    """Split on top-level semicolons, respecting quotes and comments."""
    out = []
    cur = []
    i = 0
    n = len(sql)
    while i < n:
        c = sql[i]
        if c == "'":
            j = i + 1
            while j < n:
                if sql[j] == "'":
                    if j + 1 < n and sql[j + 1] == "'":
                        j += 2
                        continue
                    break
                j += 1
            cur.append(sql[i:j + 1])
            i = j + 1
        elif c == '"':
            j = sql.find('"', i + 1)
            j = n - 1 if j < 0 else j
            cur.append(sql[i:j + 1])
            i = j + 1
        elif sql.startswith('/*', i):
            j = sql.find('*/', i + 2)
            j = n - 2 if j < 0 else j
            cur.append(sql[i:j + 2])
            i = j + 2
        elif sql.startswith('--', i):
            j = sql.find('\n', i)
            j = n if j < 0 else j
            cur.append(sql[i:j])
            i = j
        elif c == ';':
            out.append(''.join(cur))
            cur = []
            i += 1
        else:
            cur.append(c)
            i += 1
    out.append(''.join(cur))
    return out


def strip_comments(s):
    """Remove comments, leaving quoted text alone."""
    out = []
    i = 0
    n = len(s)
    while i < n:
        c = s[i]
        if c == "'":
            j = i + 1
            while j < n:
                if s[j] == "'":
                    if j + 1 < n and s[j + 1] == "'":
                        j += 2
                        continue
                    break
                j += 1
            out.append(s[i:j + 1])
            i = j + 1
        elif c == '"':
            j = s.find('"', i + 1)
            j = n - 1 if j < 0 else j
            out.append(s[i:j + 1])
            i = j + 1
        elif s.startswith('/*', i):
            j = s.find('*/', i + 2)
            i = n if j < 0 else j + 2
            out.append(' ')
        elif s.startswith('--', i):
            j = s.find('\n', i)
            i = n if j < 0 else j
            out.append(' ')
        else:
            out.append(c)
            i += 1
    return ''.join(out).strip()


def unquote(v):
    v = v.strip()
    if len(v) >= 2 and v[0] == "'" and v[-1] == "'":
        return v[1:-1].replace("''", "'"), True
    return v, False


def balanced_quotes(s):
    """True if single quotes in s are balanced the way PostgreSQL's lexer sees them."""
    i = 0
    n = len(s)
    inq = False
    while i < n:
        if s[i] == "'":
            if inq and i + 1 < n and s[i + 1] == "'":
                i += 2
                continue
            inq = not inq
        i += 1
    return not inq


class Session:
    """State of one backend session (one server connection)."""

    def __init__(self, backend, sock, serial):
        self.be = backend
        self.sock = sock
        self.serial = serial
        self.pid = next_pid()
        self.key = random.getrandbits(31)
        self.tx = 'I'
        self.gucs = dict(DEFAULT_GUCS)
        self.guc_defaults = dict(DEFAULT_GUCS)
        self.tx_guc_backup = None
        self.local_gucs = {}
        self.role = None
        self.prepared = {}      # protocol-level name -> (query, types)
        self.sqlprep = set()    # SQL PREPARE names
        self.portals = {}
        self.copy = None        # None | 'in' | 'out'
        self.copy_rest = []     # statements that follow a COPY IN in the same simple query
        self.copy_tag = None
        self.skip = False       # extended-protocol error: skip until Sync
        self.pend = b''         # extended protocol replies not yet flushed
        self.implicit = False
        self.last_client = None
        self.nstmt = 0
        self.user = None
        self.closed = False
        self.script_rest = []

    # ---- helpers
    def ident(self):
        return {'be': self.be.name, 'conn': self.serial, 'spid': self.pid}

    def dirt(self):
        """What distinguishes this session from a fresh one."""
        gd = {k: v for k, v in self.gucs.items() if self.guc_defaults.get(k) != v}
        return {'tx': self.tx, 'copy': self.copy or '', 'gucs': gd, 'role': self.role or '',
                'prepared': sorted(self.prepared.keys() - {''}), 'sqlprep': sorted(self.sqlprep)}

    def log(self, ev, **kw):
        d = self.ident()
        d.update(kw)
        return self.be.log.add(ev=ev, **d)

    def send(self, data, chunk=0):
        if self.be.record_bytes:
            self.log('be_write', data=data)
        if chunk and chunk > 0:
            for off in range(0, len(data), chunk):
                self.sock.sendall(data[off:off + chunk])
                time.sleep(0.001)
        else:
            self.sock.sendall(data)

    # ---- GUCs
    def set_guc(self, name, value, out):
        canon = GUC_CANON.get(name.lower(), name.lower())
        self.gucs[canon] = value
        if canon in REPORTED:
            out.append(W.ParameterStatus(canon, value))

    def begin_tx(self):
        if self.tx == 'I':
            self.tx = 'T'
            self.tx_guc_backup = (dict(self.gucs), self.role)

    def end_tx(self, commit, out):
        if self.tx != 'I':
            if (not commit or self.tx == 'E') and self.tx_guc_backup is not None:
                old, role = self.tx_guc_backup
                for k in REPORTED:
                    if old.get(k) != self.gucs.get(k):
                        out.append(W.ParameterStatus(k, old.get(k, '')))
                self.gucs = old
                self.role = role
            for k, v in self.local_gucs.items():
                self.gucs[k] = v
            self.local_gucs = {}
        self.tx = 'I'
        self.tx_guc_backup = None

    # ---- one SQL statement; returns (reply messages list, control) where control in
    # None | 'copyin' | 'close' | 'hang'
    def exec_stmt(self, raw, extended=False, maxrows=0):
        out = []
        text = strip_comments(raw)
        up = text.upper()
        m = TAG_RE.search(raw)
        client = m.group(1) if m else None
        serial = int(m.group(2)) if m else -1
        dirs = {}
        dm = DIR_RE.search(raw)
        if dm:
            for item in dm.group(1).split(','):
                item = item.strip()
                if not item:
                    continue
                if '=' in item:
                    k, v = item.split('=', 1)
                    dirs[k.strip()] = v.strip()
                else:
                    dirs[item] = '1'
        before = self.dirt()
        self.nstmt += 1
        ev = self.log('exec', client=client or '', n=serial, sql=raw[:200], kind='', before=before,
                      prev=self.last_client or '', ext=extended,
                      vals={k: self.gucs.get(k, '') for k in ('application_name', 'TimeZone', 'DateStyle', 'client_encoding',
                                                              'standard_conforming_strings', 'work_mem', 'statement_timeout')})
        if client:
            self.last_client = client

        def finish(kind, control=None):
            ev['kind'] = kind
            ev['after'] = self.dirt()
            return out, control

        if self.be.close_on and self.be.close_on(text if text else ';', client):
            if self.be.close_delay:
                time.sleep(self.be.close_delay)
            return finish('close', 'close')
        if self.be.garbage:
            out.append(b'\x00\xff\xff\xff\xf0garbage')
            return finish('garbage', 'error')
        if self.be.always_error:
            out.append(W.ErrorResponse('XX000', 'this server answers everything with an error'))
            if self.tx == 'T':
                self.tx = 'E'
            return finish('error', 'error')
        if text == '':
            out.append(W.msg(b'I'))
            return finish('empty')
        if self.be.hang_on and self.be.hang_on(text):
            ev['kind'] = 'hang'
            self.log('hang', sql=text[:80])
            self.be.hang_release.wait()
            if self.be.hang_then_close:
                return finish('hang', 'close')
        if 'sleep' in dirs:
            time.sleep(int(dirs['sleep']) / 1000.0)
        if 'hang' in dirs:
            self.log('hang', sql=text[:80])
            self.be.hang_release.wait()
        if 'hold' in dirs:
            self.be.hold_release.wait()
        if self.tx == 'E' and not re.match(r'(COMMIT|END|ROLLBACK|ABORT)\b', up):
            out.append(W.ErrorResponse('25P02', 'current transaction is aborted, commands ignored until end of transaction block'))
            return finish('error_aborted', 'error')
        if not balanced_quotes(raw):
            out.append(W.ErrorResponse('42601', 'unterminated quoted string'))
            if self.tx == 'T':
                self.tx = 'E'
            return finish('error_syntax', 'error')
        if 'err' in dirs or up.startswith('BAD') or ' BADTOKEN' in up:
            out.append(W.ErrorResponse('42601', 'syntax error at or near "bad"'))
            if self.tx == 'T':
                self.tx = 'E'
            return finish('error', 'error')
        if 'fatal' in dirs:
            out.append(W.ErrorResponse('57P01', 'terminating connection due to administrator command', 'FATAL'))
            return finish('fatal', 'close_after')
        if 'close' in dirs:
            return finish('close', 'close')
        if 'notice' in dirs:
            out.append(W.Notice('a notice'))

        if re.match(r'(BEGIN|START\s+TRANSACTION)\b', up):
            self.begin_tx()
            out.append(W.CommandComplete('BEGIN'))
            return finish('begin')
        if re.match(r'(COMMIT|END)\b', up):
            failed = self.tx == 'E'
            self.end_tx(True, out)
            out.append(W.CommandComplete('ROLLBACK' if failed else 'COMMIT'))
            return finish('commit')
        if re.match(r'(ROLLBACK|ABORT)\b', up):
            self.end_tx(False, out)
            out.append(W.CommandComplete('ROLLBACK'))
            return finish('rollback')
        m = re.match(r'SET\s+(SESSION\s+|LOCAL\s+)?ROLE\s+(.+)$', text, re.I | re.S)
        if m:
            self.role = unquote(m.group(2))[0]
            out.append(W.CommandComplete('SET'))
            return finish('set_role')
        m = re.match(r'SET\s+LOCAL\s+([A-Za-z_.]+)\s*(?:=|\s+TO\s+)\s*(.+)$', text, re.I | re.S)
        if m:
            if self.tx != 'I':
                canon = GUC_CANON.get(m.group(1).lower(), m.group(1).lower())
                if canon not in self.local_gucs:
                    self.local_gucs[canon] = self.gucs.get(canon, '')
                self.set_guc(m.group(1), unquote(m.group(2))[0], out)
            out.append(W.CommandComplete('SET'))
            return finish('set_local')
        m = re.match(r'SET\s+(?:SESSION\s+)?([A-Za-z_.]+)\s*(?:=|\s+TO\s+)\s*(.+)$', text, re.I | re.S)
        if m:
            self.set_guc(m.group(1), unquote(m.group(2))[0], out)
            out.append(W.CommandComplete('SET'))
            return finish('set')
        if re.match(r'RESET\s+ROLE\b', up):
            self.role = None
            out.append(W.CommandComplete('RESET'))
            return finish('reset_role')
        if re.match(r'RESET\s+ALL\b', up):
            for k in list(self.gucs):
                if self.gucs[k] != self.guc_defaults.get(k):
                    self.set_guc(k, self.guc_defaults.get(k, ''), out)
            out.append(W.CommandComplete('RESET'))
            return finish('reset_all')
        m = re.match(r'RESET\s+([A-Za-z_.]+)', text, re.I)
        if m:
            canon = GUC_CANON.get(m.group(1).lower(), m.group(1).lower())
            if canon in self.guc_defaults:
                self.set_guc(canon, self.guc_defaults[canon], out)
            else:
                self.gucs.pop(canon, None)      # a setting this session never changed, or one back at its built-in default
            out.append(W.CommandComplete('RESET'))
            return finish('reset')
        if re.match(r'DEALLOCATE\s+(PREPARE\s+)?ALL\b', up):
            self.prepared = {k: v for k, v in self.prepared.items() if k == ''}
            self.sqlprep.clear()
            out.append(W.CommandComplete('DEALLOCATE ALL'))
            return finish('deallocate_all')
        m = re.match(r'DEALLOCATE\s+(?:PREPARE\s+)?([A-Za-z_0-9]+)', text, re.I)
        if m:
            name = m.group(1)
            if name in self.sqlprep:
                self.sqlprep.discard(name)
            elif name in self.prepared:
                del self.prepared[name]
            else:
                out.append(W.ErrorResponse('26000', 'prepared statement "%s" does not exist' % name))
                if self.tx == 'T':
                    self.tx = 'E'
                return finish('error', 'error')
            out.append(W.CommandComplete('DEALLOCATE'))
            return finish('deallocate')
        m = re.match(r'PREPARE\s+([A-Za-z_0-9]+)', text, re.I)
        if m:
            name = m.group(1)
            if name in self.sqlprep or name in self.prepared:
                out.append(W.ErrorResponse('42P05', 'prepared statement "%s" already exists' % name))
                if self.tx == 'T':
                    self.tx = 'E'
                return finish('error', 'error')
            self.sqlprep.add(name)
            out.append(W.CommandComplete('PREPARE'))
            return finish('prepare')
        m = re.match(r'SHOW\s+([A-Za-z_.]+)', text, re.I)
        if m:
            canon = GUC_CANON.get(m.group(1).lower(), m.group(1).lower())
            out.append(W.RowDescription([canon]))
            out.append(W.DataRow([self.gucs.get(canon, '')]))
            out.append(W.CommandComplete('SHOW'))
            return finish('show')
        if re.match(r'COPY\b.*\bFROM\s+STDIN', up, re.S):
            if extended:
                out.append(W.msg(b'G', struct.pack('!bh', 0, 0)))
                return finish('copy_in', 'copyin')
            out.append(W.msg(b'G', struct.pack('!bh', 0, 0)))
            self.copy = 'in'
            self.copy_tag = client
            return finish('copy_in', 'copyin')
        if re.match(r'COPY\b.*\bTO\s+STDOUT', up, re.S):
            rows = int(dirs.get('rows', 2))
            size = int(dirs.get('size', 8))
            out.append(W.msg(b'H', struct.pack('!bh', 0, 0)))
            ev['copy_out_split'] = len(out)
            for r in range(rows):
                out.append(W.CopyData((('r%d,' % r) + 'x' * max(0, size - 4)).encode() + b'\n'))
            out.append(W.CopyDone())
            out.append(W.CommandComplete('COPY %d' % rows))
            return finish('copy_out')
        # generic statement with a result set or a command tag
        word = up.split(None, 1)[0] if up else ''
        if word in ('INSERT', 'UPDATE', 'DELETE', 'CREATE', 'DROP', 'ALTER', 'TRUNCATE', 'MERGE',
                    'LOCK', 'VACUUM', 'ANALYZE', 'GRANT', 'REVOKE', 'LISTEN', 'NOTIFY', 'DISCARD')\
                and 'RETURNING' not in up:
            tag = {'INSERT': 'INSERT 0 1', 'UPDATE': 'UPDATE 1', 'DELETE': 'DELETE 1'}.get(word, word)
            if word == 'DISCARD':
                self.prepared = {k: v for k, v in self.prepared.items() if k == ''}
                self.sqlprep.clear()
                for k in list(self.gucs):
                    self.gucs[k] = self.guc_defaults.get(k, '')
                self.role = None
                tag = 'DISCARD ALL'
            out.append(W.CommandComplete(tag))
            return finish('dml')
        rows = int(dirs.get('rows', 1))
        size = int(dirs.get('size', 0))
        echo = json.dumps({'be': self.be.name, 'conn': self.serial, 'spid': self.pid, 'c': client or '',
                           'n': serial, 'tx': before['tx']})
        if not extended:
            out.append(W.RowDescription(['v']))
        sent = 0
        for r in range(rows):
            if maxrows and sent >= maxrows:
                out.append(W.msg(b's'))
                ev['suspended'] = True
                return finish('select')
            if r == 0:
                out.append(W.DataRow([echo + ('x' * max(0, size - len(echo)))]))
            else:
                out.append(W.DataRow([('r%d' % r) + 'x' * max(0, size - 3)]))
            sent += 1
        out.append(W.CommandComplete('SELECT %d' % rows))
        return finish('select')


class Backend(threading.Thread):
    """One listening mock server."""

    def __init__(self, name, log, labels=None, port=0):
        super().__init__(daemon=True)
        self.name = name
        self.log = log
        self.labels = labels or {}
        for attempt in range(8):
            self.lsock = socket.socket()
            if port:
                self.lsock.setsockopt(socket.SOL_SOCKET, socket.SO_REUSEADDR, 1)
            try:
                # (two sockets with SO_REUSEADDR may be given the same free port by bind(0); the second listen() fails)
                self.lsock.bind(('127.0.0.1', port))
                # (set after the port was chosen: the sessions accepted here inherit it, which lets listener_up() bind
                # the port again while they are still open)
                self.lsock.setsockopt(socket.SOL_SOCKET, socket.SO_REUSEADDR, 1)
                self.lsock.listen(128)
                break
            except OSError:
                self.lsock.close()
                if port or attempt == 7:
                    raise
        self.port = self.lsock.getsockname()[1]
        self.body_stall = 0         # seconds to wait between the header and the body of a message of more than 1 MB
        self.small_rcvbuf = False   # accepted sockets get a small receive buffer
        self.listen_up = threading.Event()
        self.listen_up.set()
        self.relisten = False
        self.mode = 'ok'            # ok | refuse | hang_startup | md5
        self.md5_password = None
        self.auth_rows = None       # rows returned for an auth_query (usename, passwd)
        self.hang_on = None         # predicate(text) -> bool
        self.hang_release = threading.Event()
        self.hang_then_close = False
        self.hold_release = threading.Event()
        self.record_bytes = False
        self.nconn = 0
        self.sessions = {}
        self.lock = threading.Lock()
        self.stopping = False
        self.startup_params = {}
        self.extra_startup = []     # extra ParameterStatus at startup
        self.close_on = None        # predicate(text, client) -> close the connection instead of answering
        self.fault_kind = 'up'
        self.scripts = []           # scripted replies: each a list of segments [(bytes, [chunk offsets])]
        self.stall = False          # stop reading from established connections (TCP buffers fill up)
        self.close_delay = 0.0      # seconds between receiving the statement a connection dies under and closing it
        self.read_delay = 0.0       # seconds slept before every message read
        self.always_error = False   # every statement is answered with an ErrorResponse
        self.garbage = False        # every statement is answered with bytes that are not a PostgreSQL message

    # ---- control
    def set_mode(self, mode):
        self.mode = mode

    def fault(self, kind):
        """Failover faults: up | refuse | hang | badcheck | dies_under_statement."""
        self.fault_kind = kind
        self.hang_release.set()          # let go of anything that hung before
        self.hang_on = None
        self.close_on = None
        self.mode = 'ok'
        self.stall = False
        self.close_delay = 0.0
        self.read_delay = 0.0
        self.always_error = False
        self.garbage = False
        if kind == 'up':
            return
        if kind == 'stall':
            self.stall = True
            return
        if kind == 'slow':
            self.read_delay = 0.4
            return
        if kind == 'errors':
            self.always_error = True
            return
        if kind == 'garbage':
            self.garbage = True
            return
        if kind == 'close_mid':
            self.close_on = lambda text, client: True
            return
        if kind == 'hang_startup':
            self.hang_release = threading.Event()
            self.mode = 'hang_startup'
            return
        if kind == 'startup_error':
            self.mode = 'startup_error'
            self.kill_connections()
        elif kind == 'refuse':
            self.mode = 'refuse'
            self.kill_connections()
        elif kind == 'hang':
            self.hang_release = threading.Event()
            self.mode = 'hang_startup'
            self.hang_on = lambda text: True
        elif kind == 'badcheck':
            self.close_on = lambda text, client: text.strip() == ';' or text.strip() == ''
        elif kind == 'dies_under_statement':
            self.close_on = lambda text, client: bool(client)
            self.close_delay = 0.3

    def kill_connections(self):
        with self.lock:
            socks = [s.sock for s in self.sessions.values()]
        for s in socks:
            try:
                s.shutdown(socket.SHUT_RDWR)
            except OSError:
                pass
            try:
                s.close()
            except OSError:
                pass

    def live_sessions(self):
        with self.lock:
            return [s for s in self.sessions.values() if not s.closed]

    def stop(self):
        self.stopping = True
        self.listen_up.set()
        self.hang_release.set()
        self.hold_release.set()
        try:
            self.lsock.close()
        except OSError:
            pass
        self.kill_connections()

    def listener_down(self):
        """Stop accepting: connection attempts are refused; established sessions go on."""
        self.listen_up.clear()
        self.relisten = True
        try:
            self.lsock.shutdown(socket.SHUT_RDWR)    # wakes the accept() of the listener thread
        except OSError:
            pass
        self.lsock.close()

    def listener_up(self):
        for attempt in range(100):
            ls = socket.socket()
            ls.setsockopt(socket.SOL_SOCKET, socket.SO_REUSEADDR, 1)
            try:
                ls.bind(('127.0.0.1', self.port))
                ls.listen(128)
                break
            except OSError:
                ls.close()
                if attempt == 99:
                    raise
                time.sleep(0.02)
        self.lsock = ls
        self.listen_up.set()

    def run(self):
        while not self.stopping:
            try:
                c, _ = self.lsock.accept()
            except OSError:
                if self.stopping or not self.relisten:
                    return
                self.listen_up.wait(10.0)
                if not self.listen_up.is_set():
                    return
                continue
            c.setsockopt(socket.IPPROTO_TCP, socket.TCP_NODELAY, 1)
            if self.small_rcvbuf:
                try:
                    c.setsockopt(socket.SOL_SOCKET, socket.SO_RCVBUF, 32768)
                except OSError:
                    pass
            self.nconn += 1
            serial = self.nconn
            mode = self.mode
            if mode == 'refuse':
                self.log.add(ev='refused', be=self.name, conn=serial)
                c.close()
                continue
            sess = Session(self, c, serial)
            with self.lock:
                self.sessions[serial] = sess
            threading.Thread(target=self.serve, args=(sess, mode), daemon=True).start()

    # ---- connection
    def serve(self, s, mode):
        c = s.sock
        try:
            body = W.read_startup(c)
            code = struct.unpack('!i', body[:4])[0]
            if code == 80877103:   # SSLRequest
                c.sendall(b'N')
                body = W.read_startup(c)
                code = struct.unpack('!i', body[:4])[0]
            if code == 80877102:
                pid, key = struct.unpack('!ii', body[4:12])
                self.log.add(ev='cancel_request', be=self.name, conn=s.serial, target_pid=pid, target_key=key)
                c.close()
                s.closed = True
                return
            parts = body[4:].split(b'\0')
            params = {}
            for i in range(0, len(parts) - 1, 2):
                if parts[i]:
                    params[parts[i].decode()] = parts[i + 1].decode(errors='replace')
            s.user = params.get('user')
            s.gucs['application_name'] = params.get('application_name', '')
            s.guc_defaults['application_name'] = s.gucs['application_name']
            s.gucs['session_authorization'] = s.user or ''
            s.guc_defaults['session_authorization'] = s.user or ''
            if mode == 'startup_error':
                # the server answers the startup packet with a FATAL error (as PostgreSQL does while starting up or
                # shutting down) and closes
                s.log('startup_refused', user=s.user or '')
                c.sendall(W.ErrorResponse('57P03', 'the database system is starting up', 'FATAL'))
                c.close()
                s.closed = True
                return
            if mode == 'hang_startup':
                s.log('startup_hang', user=s.user or '')
                self.hang_release.wait()
                c.close()
                s.closed = True
                return
            if mode == 'md5':
                salt = bytes(random.getrandbits(8) for _ in range(4))
                c.sendall(W.AuthMD5(salt))
                t, pw = W.read_msg(c)
                inner = hashlib.md5((self.md5_password + (s.user or '')).encode()).hexdigest()
                want = b'md5' + hashlib.md5(inner.encode() + salt).hexdigest().encode()
                if t != b'p' or pw.rstrip(b'\0') != want:
                    c.sendall(W.ErrorResponse('28P01', 'password authentication failed', 'FATAL'))
                    s.log('auth_failed', user=s.user or '')
                    c.close()
                    s.closed = True
                    return
            s.log('connect', user=s.user or '', database=params.get('database', ''), key=s.key)
            out = W.AuthOk()
            for k in REPORTED:
                out += W.ParameterStatus(k, s.gucs.get(k, ''))
            for k, v in self.extra_startup:
                out += W.ParameterStatus(k, v)
            out += W.BackendKeyData(s.pid, s.key) + W.Ready('I')
            c.sendall(out)
            self.loop(s)
        except EOFError:
            s.log('eof', dirt=s.dirt())
        except (ConnectionError, OSError) as e:
            s.log('sockerr', err=type(e).__name__)
        except Exception as e:  # harness bug: make it visible
            import traceback
            s.log('mock_exception', err=repr(e), tb=traceback.format_exc())
        finally:
            s.closed = True
            try:
                c.close()
            except OSError:
                pass

    def run_simple(self, s, stmts, out):
        """Run statements of one simple query; returns control."""
        for idx, st in enumerate(stmts):
            if strip_comments(st) == '' and len(stmts) > 1:
                continue
            implicit = s.tx == 'I'
            rep, ctl = s.exec_stmt(st)
            out.extend(rep)
            if ctl == 'copyin':
                s.copy_rest = stmts[idx + 1:]
                return 'copyin'
            if ctl in ('close', 'close_after'):
                return ctl
            if ctl == 'error':
                return 'error'
        return None

    def loop(self, s):
        c = s.sock
        while True:
            while self.stall and not self.stopping:
                time.sleep(0.02)
            if self.read_delay:
                time.sleep(self.read_delay)
            if self.body_stall:
                # a server that is slow to take a very large message: the header is read, the body after a pause
                t = W.recvn(c, 1)
                ln = struct.unpack('!i', W.recvn(c, 4))[0]
                if ln < 4:
                    raise ValueError('bad length %d' % ln)
                if ln > 1000000:
                    time.sleep(self.body_stall)
                body = W.recvn(c, ln - 4)
            else:
                t, body = W.read_msg(c)
            if self.record_bytes:
                s.log('be_read', data=t + struct.pack('!i', len(body) + 4) + body)
            if t == b'X':
                s.log('terminate', dirt=s.dirt())
                return
            # ---- scripted reply mode (C03): the next Query / Sync is answered with a prepared stream
            if s.copy == 'script':
                if t == b'd':
                    continue
                if t in (b'c', b'f'):
                    seg = s.script_rest.pop(0)
                    if not s.script_rest:
                        s.copy = None
                    self.send_script_segment(s, seg)
                    continue
                if t in (b'S', b'H'):
                    continue
                s.log('script_unexpected', t=t.decode(errors='replace'))
                continue
            if self.scripts and t in (b'Q', b'S'):
                scr = self.scripts.pop(0)
                s.log('script_start', n=len(scr))
                s.script_rest = list(scr[1:])
                if s.script_rest:
                    s.copy = 'script'
                self.send_script_segment(s, scr[0])
                continue
            if self.scripts and t in (b'P', b'B', b'D', b'E', b'C', b'H'):
                continue
            if s.copy == 'in':
                if t == b'd':
                    s.log('copydata', n=len(body), client=s.copy_tag or '')
                    continue
                if t == b'c':
                    s.copy = None
                    s.log('copydone', client=s.copy_tag or '')
                    out = [W.CommandComplete('COPY 1')]
                    ctl = self.run_simple(s, s.copy_rest, out)
                    s.copy_rest = []
                    if ctl == 'copyin':
                        s.send(b''.join(out))
                        continue
                    if ctl == 'close':
                        s.send(b''.join(out))
                        return
                    out.append(W.Ready(s.tx))
                    self.send_split(s, out)
                    if ctl == 'close_after':
                        return
                    continue
                if t == b'f':
                    s.copy = None
                    s.copy_rest = []
                    s.log('copyfail', client=s.copy_tag or '')
                    if s.tx == 'T':
                        s.tx = 'E'
                    s.send(W.ErrorResponse('57014', 'COPY from stdin failed') + W.Ready(s.tx))
                    continue
                if t in (b'H', b'S'):
                    continue  # Flush and Sync are ignored during COPY IN
                s.copy = None
                s.copy_rest = []
                mt = TAG_RE.search(body.decode(errors='replace'))
                s.log('unexpected_during_copy', t=t.decode(errors='replace'), body=body[:80].decode(errors='replace'),
                      client=s.copy_tag or '', msgclient=mt.group(1) if mt else '')
                if mt:
                    s.last_client = mt.group(1)
                if s.tx == 'T':
                    s.tx = 'E'
                s.send(W.ErrorResponse('08P01', 'unexpected message type 0x%02X during COPY from stdin' % t[0])
                       + W.Ready(s.tx))
                continue
            if t in (b'd', b'c', b'f'):
                s.log('stray_copy_msg', t=t.decode())
                continue
            if t == b'Q':
                sql = body[:-1].decode(errors='replace') if body.endswith(b'\0') else body.decode(errors='replace')
                s.log('Q', sql=sql[:300], tx=s.tx)
                # pgcat auth_query support
                if self.auth_rows is not None and 'pg_shadow' in sql:
                    out = [W.RowDescription(['usename', 'passwd'])]
                    # the query names the user (WHERE usename = '<name>'): answer with that user's row only
                    rows = [r for r in self.auth_rows if ("'%s'" % r[0]) in sql] or \
                        ([] if any(("'%s'" % r[0]) in sql for r in self.auth_rows) or len(self.auth_rows) > 1 else list(self.auth_rows))
                    for r in rows:
                        out.append(W.DataRow(list(r)))
                    out.append(W.CommandComplete('SELECT %d' % len(rows)))
                    out.append(W.Ready(s.tx))
                    s.send(b''.join(out))
                    continue
                out = []
                stmts = split_sql(sql)
                if not balanced_quotes(sql):
                    # the lexer fails on the whole query string: nothing is executed
                    s.log('exec', client='', n=-1, sql=sql[:200], kind='error_syntax', before=s.dirt(), after=s.dirt(),
                          prev=s.last_client or '', ext=False, vals={})
                    if s.tx == 'T':
                        s.tx = 'E'
                    s.send(W.ErrorResponse('42601', 'unterminated quoted string') + W.Ready(s.tx))
                    continue
                if all(strip_comments(x) == '' for x in stmts):
                    rep, ctl = s.exec_stmt(sql)
                    out.extend(rep)
                else:
                    ctl = self.run_simple(s, stmts, out)
                if ctl == 'copyin':
                    s.send(b''.join(out))
                    continue
                if ctl == 'close':
                    if out:
                        data = b''.join(out)
                        s.send(data[:max(1, len(data) // 2)])
                    return
                out.append(W.Ready(s.tx))
                self.send_split(s, out, sql)
                if ctl == 'close_after':
                    return
                continue
            # ---- extended protocol
            if t == b'S':
                s.skip = False
                if s.implicit and s.tx == 'T' and False:
                    pass
                s.log('Sync', tx=s.tx)
                s.pend += W.Ready(s.tx)
                s.send(s.pend)
                s.pend = b''
                continue
            if t == b'H':
                s.send(s.pend)
                s.pend = b''
                continue
            if s.skip:
                s.log('skipped', t=t.decode(errors='replace'))
                continue
            if t == b'P':
                name, rest = body.split(b'\0', 1)
                q, rest = rest.split(b'\0', 1)
                ntypes = struct.unpack('!h', rest[:2])[0] if len(rest) >= 2 else 0
                types = list(struct.unpack('!%di' % ntypes, rest[2:2 + 4 * ntypes])) if ntypes > 0 else []
                name = name.decode(errors='replace')
                q = q.decode(errors='replace')
                m = TAG_RE.search(q)
                ev = s.log('Parse', name=name, sql=q[:300], types=types, client=m.group(1) if m else '',
                           ok=True, before=s.dirt(), prev=s.last_client or '')
                if m:
                    s.last_client = m.group(1)
                text = strip_comments(q).upper()
                if text.startswith('BAD') or '/*v:err' in q and 'parse' in q:
                    s.pend += W.ErrorResponse('42601', 'syntax error at or near "bad"')
                    ev['ok'] = False
                    s.skip = True
                    if s.tx == 'T':
                        s.tx = 'E'
                    continue
                if name != '' and (name in s.prepared or name in s.sqlprep):
                    s.pend += W.ErrorResponse('42P05', 'prepared statement "%s" already exists' % name)
                    ev['ok'] = False
                    ev['dup'] = True
                    s.skip = True
                    if s.tx == 'T':
                        s.tx = 'E'
                    continue
                s.prepared[name] = (q, types)
                s.pend += W.msg(b'1')
                continue
            if t == b'B':
                portal, rest = body.split(b'\0', 1)
                stmt, rest = rest.split(b'\0', 1)
                stmt = stmt.decode(errors='replace')
                portal = portal.decode(errors='replace')
                ev = s.log('Bind', stmt=stmt, portal=portal, ok=True, raw=rest[:64].hex())
                if stmt not in s.prepared:
                    s.pend += W.ErrorResponse('26000', 'prepared statement "%s" does not exist' % stmt)
                    ev['ok'] = False
                    s.skip = True
                    if s.tx == 'T':
                        s.tx = 'E'
                    continue
                s.portals[portal] = s.prepared[stmt]
                ev['sql'] = s.prepared[stmt][0][:300]
                s.pend += W.msg(b'2')
                continue
            if t == b'D':
                kind = body[:1]
                name = body[1:].rstrip(b'\0').decode(errors='replace')
                ok = (name in s.prepared) if kind == b'S' else (name in s.portals)
                s.log('Describe', kind=kind.decode(), name=name, ok=ok)
                if not ok:
                    s.pend += W.ErrorResponse('26000' if kind == b'S' else '34000', '%s "%s" does not exist' % (
                        'prepared statement' if kind == b'S' else 'portal', name))
                    s.skip = True
                    if s.tx == 'T':
                        s.tx = 'E'
                    continue
                if kind == b'S':
                    q, types = s.prepared[name]
                    s.pend += W.msg(b't', struct.pack('!h', len(types)) + b''.join(struct.pack('!i', x) for x in types))
                else:
                    q = s.portals[name][0]
                if re.match(r'\s*(/\*.*?\*/\s*)*(SELECT|SHOW|WITH|VALUES)', q, re.I | re.S):
                    s.pend += W.RowDescription(['v'])
                else:
                    s.pend += W.msg(b'n')
                continue
            if t == b'E':
                portal, rest = body.split(b'\0', 1)
                portal = portal.decode(errors='replace')
                maxrows = struct.unpack('!i', rest[:4])[0] if len(rest) >= 4 else 0
                if portal not in s.portals:
                    s.log('Execute', portal=portal, ok=False)
                    s.pend += W.ErrorResponse('34000', 'portal "%s" does not exist' % portal)
                    s.skip = True
                    if s.tx == 'T':
                        s.tx = 'E'
                    continue
                q = s.portals[portal][0]
                s.log('Execute', portal=portal, ok=True, sql=q[:300], types=list(s.portals[portal][1]))
                rep, ctl = s.exec_stmt(q, extended=True, maxrows=maxrows)
                s.pend += b''.join(rep)
                if ctl == 'error':
                    s.skip = True
                elif ctl == 'copyin':
                    s.copy = 'in'
                    s.copy_rest = []
                    s.send(s.pend)
                    s.pend = b''
                elif ctl == 'close':
                    return
                continue
            if t == b'C':
                kind = body[:1]
                name = body[1:].rstrip(b'\0').decode(errors='replace')
                s.log('Close', kind=kind.decode(), name=name)
                if kind == b'S':
                    s.prepared.pop(name, None)
                else:
                    s.portals.pop(name, None)
                s.pend += W.msg(b'3')
                continue
            s.log('unknown_message', t=t.decode(errors='replace'))
            s.send(W.ErrorResponse('08P01', 'invalid frontend message type %d' % t[0], 'FATAL'))
            return

    def send_script_segment(self, s, seg):
        data, cuts = seg
        if self.record_bytes:
            s.log('be_write', data=data)
        prev = 0
        for c in list(cuts) + [len(data)]:
            if c > prev:
                s.sock.sendall(data[prev:c])
                prev = c
                time.sleep(0.0008)

    def send_split(self, s, out, sql=''):
        chunk = 0
        m = re.search(r'chunk=(\d+)', sql) if sql else None
        if m:
            chunk = int(m.group(1))
        s.send(b''.join(out), chunk)
