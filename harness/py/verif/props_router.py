"""Checks C05 (role routing), C06 (sharding), C13 (command language): Router spec, TLC-generated
sessions replayed through the real pgcat, landings validated by Trace_Router."""
import json
import os
import random

from . import core, tlc, routing

# ---- statement classes -> concrete spellings (PostgreSQL grammar, bounded depth)
SPELLINGS = {
    'read': ['SELECT 1', 'SELECT * FROM t WHERE a = 5', 'select a, b from t join u on t.id = u.id where u.x > 3',
             'WITH x AS (SELECT 1 AS a) SELECT * FROM x', 'SELECT (SELECT count(*) FROM t) AS c',
             'SELECT a FROM t UNION SELECT a FROM u', 'SELECT * FROM (SELECT 1) AS s', 'VALUES (1), (2)',
             'SELECT count(*) FROM t GROUP BY a HAVING count(*) > 1 ORDER BY 1 LIMIT 3'],
    'insert': ['INSERT INTO t VALUES (1)', 'insert into t (a, b) values (1, 2), (3, 4)',
               'INSERT INTO t (a) SELECT a FROM u', 'INSERT INTO t VALUES (1) ON CONFLICT DO NOTHING',
               'INSERT INTO t VALUES (1) RETURNING a'],
    'update': ['UPDATE t SET a = 1', 'update t set a = a + 1 where b = 2', 'UPDATE t SET a = u.a FROM u WHERE t.id = u.id',
               'UPDATE t SET a = 1 RETURNING *'],
    'delete': ['DELETE FROM t', 'delete from t where a = 1', 'DELETE FROM t USING u WHERE t.id = u.id',
               'DELETE FROM t WHERE a IN (SELECT a FROM u) RETURNING a'],
    'ddl': ['CREATE TABLE nt (a int)', 'DROP TABLE IF EXISTS nt', 'ALTER TABLE t ADD COLUMN c int',
            'CREATE INDEX i1 ON t (a)', 'TRUNCATE t', 'CREATE VIEW v1 AS SELECT 1', 'CREATE TABLE nt2 AS SELECT * FROM t'],
    'utility': ['SET statement_timeout TO 100', 'GRANT SELECT ON t TO someone', 'ANALYZE t',
                'EXPLAIN ANALYZE INSERT INTO t VALUES (1)', 'COMMENT ON TABLE t IS \'x\'', 'DISCARD ALL',
                'MERGE INTO t USING u ON t.id = u.id WHEN MATCHED THEN UPDATE SET a = 1', 'LOCK TABLE t',
                'CALL do_something()'],
    'txstart': ['BEGIN', 'START TRANSACTION', 'begin', 'BEGIN ISOLATION LEVEL SERIALIZABLE', 'BEGIN READ WRITE'],
    'locking_read': ['SELECT * FROM t FOR UPDATE', 'SELECT * FROM t WHERE a = 1 FOR SHARE',
                     'select * from t for update skip locked', 'SELECT * FROM t FOR NO KEY UPDATE'],
    'writing_cte': ['WITH x AS (INSERT INTO t VALUES (1) RETURNING a) SELECT * FROM x',
                    'WITH d AS (DELETE FROM t WHERE a = 1 RETURNING *) SELECT count(*) FROM d',
                    'WITH u2 AS (UPDATE t SET a = 2 RETURNING a) SELECT * FROM u2'],
    'select_into': ['SELECT * INTO nt3 FROM t', 'SELECT a INTO TEMP nt4 FROM t WHERE a > 1'],
    'multi_rw': ['SELECT 1; INSERT INTO t VALUES (1)', 'SELECT a FROM t; UPDATE t SET a = 1'],
    'multi_wr': ['INSERT INTO t VALUES (1); SELECT 1', 'DELETE FROM t; SELECT count(*) FROM t'],
    'multi_rr': ['SELECT 1; SELECT 2', 'SELECT a FROM t; SELECT b FROM u', 'SELECT 1; SELECT 2; SELECT 3'],
    'multi_txr': ['BEGIN; SELECT 1', 'START TRANSACTION ISOLATION LEVEL REPEATABLE READ; SELECT 1; SELECT 2',
                  'begin; select * from t where a = 1'],
    'multi_txw': ['BEGIN; INSERT INTO t VALUES (1)', 'BEGIN; SELECT 1; UPDATE t SET a = 1'],
    'multi_rtx': ['SELECT 1; BEGIN', 'SELECT 1; BEGIN; SELECT 2'],
    'unparseable': ['SELEC 1 oops', 'INSERT INTO INTO t', 'SELECT * FROM WHERE', 'NOTIFY chan'],
}

ROLE_CASE = [lambda s: s, str.upper, str.lower, lambda s: s.capitalize()]


def spell_command(rng, op, arg):
    """A documented spelling of a routing command."""
    semi = rng.choice(['', ';', ' ;', '; '])
    lead = rng.choice(['', '', ' '])
    kw = rng.choice([lambda s: s, str.lower, lambda s: s.title()])
    if op == 'set_role':
        a = rng.choice(ROLE_CASE)(arg)
        return lead + kw('SET SERVER ROLE TO') + " '%s'" % a + semi
    if op == 'set_pr':
        a = rng.choice(ROLE_CASE)(arg)
        q = rng.choice(["'%s'", '%s'])
        return lead + kw('SET PRIMARY READS TO') + ' ' + (q % a) + semi
    if op == 'set_shard':
        q = rng.choice(["'%s'", '%s'])
        return lead + kw('SET SHARD TO') + ' ' + (q % arg) + semi
    if op == 'set_key':
        q = rng.choice(["'%s'", '%s'])
        return lead + kw('SET SHARDING KEY TO') + ' ' + (q % arg) + semi
    if op == 'show_role':
        return lead + kw('SHOW SERVER ROLE') + semi
    if op == 'show_pr':
        return lead + kw('SHOW PRIMARY READS') + semi
    if op == 'show_shard':
        return lead + kw('SHOW SHARD') + semi
    raise ValueError(op)


def limbs(key):
    u = key & 0xFFFFFFFFFFFFFFFF
    hi = u >> 32
    lo = u & 0xFFFFFFFF
    return {'neg': key < 0, 'hi': [hi >> 16, hi & 0xFFFF], 'lo': [lo >> 16, lo & 0xFFFF]}


def reply_wellformed(o, expect):
    """Shape of a pooler-generated reply: 'complete' (C Z), 'show' (T D C Z), 'error' (E Z)."""
    k = o.get('kinds', '')
    if o.get('end') != 'Z':
        return False
    if expect == 'complete':
        return k == 'CZ'
    if expect == 'show':
        return k == 'TDCZ' and len(o.get('rows', [])) == 1
    if expect == 'error':
        return k == 'EZ'
    if expect == 'complete_or_error':
        return k in ('CZ', 'EZ')
    return False


def concretise_c05(rng, sc):
    steps = []
    meta = []
    for st in sc['steps']:
        op, arg = st['op'], st['arg']
        if op in ('set_role', 'set_pr', 'set_shard'):
            sql = spell_command(rng, op, arg)
            steps.append({'kind': 'q', 'sql': sql, 'tag': False})
            meta.append({'m': 'cmd', 'op': op, 'arg': arg, 'text': sql})
        elif op == 'stmt':
            sql = rng.choice(SPELLINGS[arg])
            proto = 'simple'
            if not arg.startswith('multi_') and rng.random() < 0.3:
                proto = 'extended'
            if arg in ('txstart', 'multi_txr', 'multi_txw', 'multi_rtx'):
                # transaction: BEGIN; a read inside; COMMIT - all on the connection BEGIN got
                steps.append({'kind': 'q', 'sql': sql})
                meta.append({'m': 'stmt', 'class': arg, 'sql': sql, 'proto': 'simple'})
                inner = rng.choice(['SELECT 1', 'INSERT INTO t VALUES (2)', 'SELECT * FROM t'])
                steps.append({'kind': 'q', 'sql': inner})
                meta.append({'m': 'intx', 'class': 'in_tx', 'sql': inner, 'proto': 'simple'})
                steps.append({'kind': 'q', 'sql': 'COMMIT'})
                meta.append({'m': 'intx', 'class': 'in_tx', 'sql': 'COMMIT', 'proto': 'simple'})
            elif proto == 'extended':
                steps.append({'kind': 'ext', 'sql': sql})
                meta.append({'m': 'stmt', 'class': arg, 'sql': sql, 'proto': 'extended'})
            else:
                steps.append({'kind': 'q', 'sql': sql})
                meta.append({'m': 'stmt', 'class': arg, 'sql': sql, 'proto': 'simple'})
    return steps, meta


def build_trace(sessions, results, want_cmd=True):
    """Trace_Router records for executed sessions."""
    recs = []
    notes = []
    for s, r in zip(sessions, results):
        if r is None or r.get('error') or not r.get('obs'):
            notes.append({'id': s['id'], 'error': (r or {}).get('error', 'no result')})
            continue
        recs.append({'ev': 'reset', 'sc': s['id'], 'cfg': {
            'default_role': s['cfg'].get('default_role', 'any'), 'parser': bool(s['cfg'].get('parser')),
            'rwsplit': bool(s['cfg'].get('rwsplit')), 'primary_reads': bool(s['cfg'].get('primary_reads', True)),
            'nshards': s.get('nshards', routing.NSHARDS)}})
        msgs = list(r.get('msgs', []))
        mi = 0
        in_tx = False
        tx_backend = None
        for st, meta, o in zip(s['steps'], s['meta'], r['obs']):
            # parser verdict for this step: qr_parse events of its idle messages
            nmsg = 0
            if not in_tx:
                nmsg = 1 if st['kind'] in ('q', 'raw') else (5 if st.get('describe') else 4)
                if st['kind'] == 'batch':
                    nmsg = sum(3 if p.get('run', True) else 1 for p in st['parts']) + 1
            mine = msgs[mi:mi + nmsg]
            mi += nmsg
            verdicts = [v for m in mine for v in m.get('parse', [])]
            parsed = bool(verdicts) and all(verdicts)
            role, shard = routing.landing_labels(o.get('landed', []))
            if meta['m'] == 'cmd':
                op = meta['op']
                handled = not o.get('landed') and not o.get('forwarded_sql')
                shape = 'show' if op.startswith('show') else ('complete_or_error' if op in ('set_shard', 'opaque') else 'complete')
                rec = {'ev': 'cmd', 'op': op, 'arg': str(meta.get('arg', '')), 'text': meta['text'],
                       'handled': handled, 'reply_ok': reply_wellformed(o, shape), 'reply': o.get('kinds', ''),
                       'is_error': o.get('kinds', '') == 'EZ',
                       'value': (o['rows'][0][0] if o.get('rows') and o['rows'][0] else '') or ''}
                if op == 'set_shard':
                    rec['k'] = int(meta['k']) if 'k' in meta else int(meta['arg'])
                if op == 'set_key':
                    rec.update(limbs(int(meta['key'])))
                if op == 'set_key_ext':
                    rec['expect'] = int(meta['expect'])
                recs.append(rec)
            elif meta['m'] == 'noncmd':
                fw = o.get('forwarded_sql', [])
                recs.append({'ev': 'noncmd', 'text': meta['text'], 'forwarded': bool(fw),
                             'identical': meta['text'] in fw, 'reply': o.get('kinds', '')})
            else:
                intx = meta['m'] == 'intx'
                same = True
                if intx:
                    same = (not o.get('landed')) or tx_backend is None or o['landed'] == tx_backend
                rec = {'ev': 'stmt', 'class': meta['class'], 'parsed': parsed, 'role': role, 'shard': shard,
                       'intx': intx, 'same': same, 'sql': meta['sql'][:120], 'proto': meta.get('proto', 'simple'),
                       'haskey': 'key' in meta, 'path': meta.get('path', ''), 'neg': False, 'hi': [0, 0], 'lo': [0, 0],
                       'ext': meta.get('ext', -1), 'setshard': meta.get('setshard', -1),
                       'is_error': bool(o.get('errors'))}
                if 'key' in meta:
                    rec.update(limbs(int(meta['key'])))
                recs.append(rec)
                if not intx and o.get('landed'):
                    tx_backend = o['landed']
            in_tx = o.get('status') in ('T', 'E')
            if not in_tx:
                tx_backend = None if meta['m'] != 'stmt' else tx_backend
    return recs, notes


def run_sessions(v, sessions, workers=14, per_batch=None, general=None, layout=None):
    """Execute sessions (grouped into batches, one pgcat per batch); returns results aligned."""
    if per_batch is None:
        per_batch = max(20, len(sessions) // (workers * 2) + 1)
    batches = []
    for i in range(0, len(sessions), per_batch):
        batches.append(dict({'sessions': sessions[i:i + per_batch], 'general': general}, **(layout or {})))
    outs = core.run_parallel(routing.run_batch, batches, workers=workers)
    byid = {}
    for b, o in zip(batches, outs):
        if 'error' in o and 'sessions' not in o:
            v.tool_error('routing batch crashed: ' + o['error'][-500:])
            continue
        if not o.get('alive', True):
            v.violation('pgcat_died', {'log': o.get('log', '')[-800:]}, replay={'batch': [s['id'] for s in b['sessions']]})
        for s in o['sessions']:
            byid[s['id']] = s
    return [byid.get(s['id']) for s in sessions]


def validate(v, name, recs):
    if not recs:
        v.tool_error('no trace records for ' + name)
        return {}
    res, info = tlc.validate_trace('Trace_Router', 'Trace_Router.cfg', recs, timeout=2400)
    v.add_mc('trace:' + name, res)
    if info['matched'] != info['total']:
        v.tool_error('Trace_Router(%s): consumed %s of %d records: %s' % (
            name, info['matched'], info['total'], '; '.join(res.errors()[:3]) or res.out[-800:]))
        return {}
    byid = {}
    for vi in info['viol']:
        byid.setdefault(vi['sc'], []).append(vi)
    return byid


def generate(v, cfgname, text):
    path = os.path.join(tlc.SPEC, cfgname)
    with open(path, 'w') as f:
        f.write(text)
    res = tlc.run_tlc('Gen_Router', cfgname, workers=8, timeout=1500)
    if res.rc != 0:
        v.tool_error('Gen_Router %s rc=%d %s' % (cfgname, res.rc, '; '.join(res.errors()[:2])))
        return []
    v.add_mc('gen:' + cfgname, res)
    return [o for t, o in res.prints if t == 'SCENARIO']


def setof(xs):
    return '{' + ', '.join('"%s"' % x if isinstance(x, str) else str(x) for x in xs) + '}'


def check_c05(prop, tier, seed):
    v = core.Verdict(prop, tier, seed)
    rng = random.Random(seed)
    v.assumptions = [
        'statement class -> SQL spelling table (props_router.SPELLINGS) classifies spellings as PostgreSQL would',
        'a message counts as accepted by the parser iff pgcat\'s own parser accepted it (qr_parse hook)',
        'mock backends labelled by shard and role are the ground truth for where a statement ran',
    ]
    core.build_pgcat()
    classes = sorted(SPELLINGS.keys())
    depth = 3
    scen = generate(v, 'Gen_Router_C05.cfg', '''SPECIFICATION GSpec
CONSTANTS
  Depth = %d
  GenClasses = %s
  GenKeys = {}
  GenShows = {}
INVARIANT Emit
''' % (depth, setof(classes)))
    v.extra['sessions_generated'] = len(scen)
    # keep sessions that end in a statement (the routed step), favour command+statement interplay
    useful = [s for s in scen if s['steps'][-1]['op'] == 'stmt']
    rng.shuffle(useful)
    n = {'quick': 2500, 'thorough': 40000}[tier]
    # stratify over (config, last class, preceding ops)
    strata = {}
    for s in useful:
        key = (json.dumps(s['cfg'], sort_keys=True), s['steps'][-1]['arg'], tuple(x['op'] for x in s['steps'][:-1]))
        strata.setdefault(key, []).append(s)
    chosen = []
    keys = list(strata.keys())
    rng.shuffle(keys)
    i = 0
    while len(chosen) < n and keys:
        progressed = False
        for k in keys:
            if i < len(strata[k]):
                chosen.append(strata[k][i])
                progressed = True
                if len(chosen) >= n:
                    break
        if not progressed:
            break
        i += 1
    sessions = []
    for idx, s in enumerate(chosen):
        r2 = random.Random(seed * 7919 + idx)
        steps, meta = concretise_c05(r2, s)
        routed = [j for j, m in enumerate(meta) if m['m'] == 'stmt']
        if idx % 5 == 2 and routed and routed[0] >= 1:
            # an environment event the rule does not depend on either: the pool is re-created by a reload that changes
            # nothing about routing (idle_timeout) right before the routed statement
            steps[routed[0]]['reload_before'] = {'bump_idle_timeout': True}
        cfg = dict(s['cfg'])
        if any(st.get('reload_before') for st in steps):
            cfg['uniq'] = idx
        # a dimension the rule does not depend on: a [plugins] section present in the pool (Router.tla: PluginsConfigured)
        if cfg.get('parser') and idx % 3 == 1:
            cfg['plugins'] = {'table_access': {'enabled': idx % 2 == 0, 'tables': ['zz_not_used_by_any_statement']},
                              'query_logger': {'enabled': False}}
        sessions.append({'id': idx + 1, 'cfg': cfg, 'steps': steps, 'meta': meta, 'abstract': s['steps']})
    # group by config so each pgcat hosts few pools
    sessions.sort(key=lambda s: routing.cfg_key(s['cfg']))
    results = run_sessions(v, sessions)
    recs, notes = build_trace(sessions, results)
    v.cov['evaluations'] = len(sessions) - len(notes)
    if len(notes) > len(sessions) // 20:
        v.tool_error('%d sessions failed to run: %s' % (len(notes), notes[:2]))
    viol = validate(v, 'c05', recs)
    v.cov['traces_validated_against_impl'] = (len(sessions) - len(notes)) if not v.tool_errors else 0
    byid = {s['id']: s for s in sessions}
    nontriv = set()
    for rec in recs:
        if rec['ev'] == 'stmt' and rec['role'] != 'none' and not rec['intx']:
            nontriv.add((rec['class'], rec['proto'], rec['parsed']))
    for s in sessions:
        v.nontrivial_case([x['op'] + ':' + x['arg'] for x in s['abstract']] + [routing.cfg_key(s['cfg'])])
    for sid, vs in viol.items():
        s = byid[sid]
        for vi in vs:
            d = vi['detail']
            if vi['kind'] == 'wrong_role':
                sig = 'wrong_role/class=%s/expected=%s/got=%s/sel=%s' % (d['class'], d['expected'], d['got'], d['roleSel'])
            elif vi['kind'] in ('command_forwarded', 'command_bad_reply', 'show_wrong_value', 'set_shard_refused_in_range',
                                'set_shard_accepted_out_of_range'):
                continue   # C13's business
            else:
                sig = vi['kind']
            v.violation(sig, d, replay={'session': {'cfg': s['cfg'], 'abstract': s['abstract'],
                                                    'sql': [m.get('sql') or m.get('text') for m in s['meta']]}})
    negative_control_c05(v, recs)
    for s in sessions[:2]:
        v.add_sample({'cfg': s['cfg'], 'steps': [m.get('sql') or m.get('text') for m in s['meta']]})
    v.extra['classes_routed'] = sorted('%s/%s/parsed=%s' % x for x in nontriv)
    v.cov['rule'] = ('sessions = all sequences of %d steps over {SET SERVER ROLE x5, SET PRIMARY READS x3, %d statement '
                     'classes} x 24 pool configurations, enumerated by TLC from Gen_Router; a seeded stratified subset '
                     'is concretised (several SQL spellings per class, simple and extended protocol) and run through pgcat; '
                     'distinct = distinct (abstract session, configuration) pairs' % (depth, len(classes)))
    return v.finish()


def negative_control_c05(v, recs):
    """Flip the landing of one correctly routed write to 'replica': TLC must object."""
    start = None
    for i, r in enumerate(recs):
        if r['ev'] == 'reset':
            start = i
        if r['ev'] == 'stmt' and r['class'] == 'insert' and r['parsed'] and r['role'] == 'primary' and \
                recs[start]['cfg']['parser'] and recs[start]['cfg']['rwsplit'] and not r['intx']:
            j = i + 1
            while j < len(recs) and recs[j]['ev'] != 'reset':
                j += 1
            seg = [dict(x) for x in recs[start:j]]
            roles = [x for x in seg[1:i - start] if x['ev'] == 'cmd' and x['op'] == 'set_role']
            if roles:
                continue
            seg[i - start]['role'] = 'replica'
            res, info = tlc.validate_trace('Trace_Router', 'Trace_Router.cfg', seg)
            if any(x['kind'] == 'wrong_role' for x in info['viol']):
                v.extra['negative_control'] = 'write landing flipped to replica: rejected (wrong_role)'
            else:
                v.tool_error('negative control: corrupted routing trace accepted')
            return
    v.tool_error('negative control: no suitable session')


# ---------------------------------------------------------------------------------- C13
def casing(rng, mode, word):
    if mode == 'upper':
        return word.upper()
    if mode == 'lower':
        return word.lower()
    return ''.join(ch.upper() if rng.random() < 0.5 else ch.lower() for ch in word)


KEY_ARGS = {'zero': lambda r: 0, 'small': lambda r: r.randrange(1, 100000), 'i32max': lambda r: 2147483647,
            'u32max_plus': lambda r: 4294967296 + r.randrange(0, 1000), 'i64max': lambda r: 9223372036854775807,
            'overflow_i64': lambda r: 9223372036854775808, 'huge': lambda r: 10 ** 24 + r.randrange(0, 9)}
SHARD_ARGS = {'zero': lambda r: 0, 'inrange': lambda r: r.randrange(1, routing.NSHARDS), 'equal_n': lambda r: routing.NSHARDS,
              'large': lambda r: r.randrange(10, 100000), 'overflow_usize': lambda r: 10 ** 24 + r.randrange(0, 9),
              'any_word': lambda r: 'ANY'}
FORM_WORDS = {'set_key': ['SET', 'SHARDING', 'KEY', 'TO'], 'set_shard': ['SET', 'SHARD', 'TO'], 'show_shard': ['SHOW', 'SHARD'],
              'set_role': ['SET', 'SERVER', 'ROLE', 'TO'], 'show_role': ['SHOW', 'SERVER', 'ROLE'],
              'set_pr': ['SET', 'PRIMARY', 'READS', 'TO'], 'show_pr': ['SHOW', 'PRIMARY', 'READS']}


def render(rng, d):
    """Descriptor (CmdLang) -> (text, meta)"""
    f = d['form']
    words = list(FORM_WORDS[f])
    mut = d['mut']
    arg = None
    argval = None
    if f == 'set_key':
        argval = KEY_ARGS[d['arg']](rng)
        arg = str(argval)
    elif f == 'set_shard':
        argval = SHARD_ARGS[d['arg']](rng)
        arg = str(argval)
    elif f in ('set_role', 'set_pr'):
        argval = d['arg']
        arg = casing(rng, d['casing'], d['arg'])
    if mut == 'bad_argument':
        arg = {'set_key': '12ab', 'set_shard': 'x1', 'set_role': 'leader', 'set_pr': 'maybe'}[f]
    if mut == 'negative_number':
        arg = '-' + str(rng.randrange(1, 50))
    if mut == 'missing_to':
        words = [w for w in words if w != 'TO']
    if mut == 'misspelt_keyword':
        i = rng.randrange(len(words))
        words[i] = words[i] + 'S' if words[i] != 'TO' else 'INTO'
    words = [casing(rng, d['casing'], w) for w in words]
    if arg is not None:
        q = d['quote']
        if q == 'both':
            arg = "'" + arg + "'"
        elif q == 'open_only':
            arg = "'" + arg
        elif q == 'close_only':
            arg = arg + "'"
        words.append(arg)
    sep = {'single': ' ', 'double': '  ', 'tab': '\t', 'trailing_newline': ' ', 'leading': ' '}[d['space']]
    text = sep.join(words)
    if d['space'] == 'leading':
        text = ' ' + text
    text += ';' * d['semi']
    if d['space'] == 'trailing_newline':
        text += '\n'
    if mut == 'trailing_word':
        text = text.rstrip(';') + ' foo'
    elif mut == 'prefix_word':
        text = 'EXPLAIN ' + text
    elif mut == 'second_statement':
        text = text.rstrip(';') + '; SELECT 1'
    elif mut == 'trailing_comment':
        text = text + rng.choice([' -- note', ' /* note */'])
    elif mut == 'leading_comment':
        text = '/* note */ ' + text
    elif mut == 'in_parentheses':
        text = '(' + text.rstrip(';') + ')'
    elif mut == 'embedded_in_select':
        text = "SELECT '" + text.replace("'", "''") + "'"
    elif mut == 'line_after_statement':
        text = 'SELECT 1;\n' + text
    elif mut == 'line_before_statement':
        text = text.rstrip(';') + ';\nSELECT 2'
    elif mut == 'line_in_block_comment':
        text = '/* note:\n' + text + '\n*/ SELECT 3'
    elif mut == 'line_in_string':
        text = "SELECT '\n" + text.replace("'", "''") + "\n'"
    return text, {'form': f, 'argval': argval, 'argclass': d['arg']}


def c13_session(rng, idx, item, cfg):
    """One session: optional state-setting prefix, the command under test, probes."""
    d, cls = item['d'], item['class']
    steps, meta = [], []

    def cmd(op, arg, text=None, **kw):
        text = text if text is not None else spell_command(rng, op, str(arg))
        steps.append({'kind': 'q', 'sql': text, 'tag': False})
        m = {'m': 'cmd', 'op': op, 'arg': str(arg), 'text': text}
        m.update(kw)
        meta.append(m)

    # prefix: establish some state so that SHOW has something to report
    for _ in range(rng.randrange(0, 3)):
        which = rng.choice(['role', 'pr', 'shard'])
        if which == 'role':
            cmd('set_role', rng.choice(['primary', 'replica', 'any', 'auto', 'default']))
        elif which == 'pr':
            cmd('set_pr', rng.choice(['on', 'off', 'default']))
        else:
            k = rng.randrange(0, routing.NSHARDS + 2)
            cmd('set_shard', k, k=k)
    text, info = render(rng, d)
    f = d['form']
    if cls == 'handle':
        if f == 'set_key':
            if d['arg'] in ('overflow_i64', 'huge'):
                cmd('opaque', '', text)
            else:
                cmd('set_key', info['argval'], text, key=info['argval'])
        elif f == 'set_shard':
            if d['arg'] in ('any_word', 'overflow_usize'):
                cmd('opaque', '', text)
            else:
                cmd('set_shard', info['argval'], text, k=info['argval'])
        elif f == 'set_role':
            cmd('set_role', d['arg'], text)
        elif f == 'set_pr':
            cmd('set_pr', d['arg'], text)
        else:
            cmd(f, '', text)
        probes = ['show_role', 'show_pr', 'show_shard']
        rng.shuffle(probes)
        for pbe in probes[:rng.randrange(1, 4)]:
            cmd(pbe, '')
    elif cls == 'forward':
        steps.append({'kind': 'q', 'sql': text, 'tag': False})
        meta.append({'m': 'noncmd', 'text': text})
        # the session state must be untouched by a forwarded query
        probes = ['show_role', 'show_pr', 'show_shard']
        rng.shuffle(probes)
        for pbe in probes[:2]:
            cmd(pbe, '')
    else:
        steps.append({'kind': 'q', 'sql': text, 'tag': False})
        meta.append({'m': 'skip', 'text': text})
    return {'id': idx, 'cfg': cfg, 'steps': steps, 'meta': meta, 'descriptor': d, 'class': cls}


def check_c13(prop, tier, seed):
    v = core.Verdict(prop, tier, seed)
    rng = random.Random(seed)
    v.assumptions = [
        'the documented command language is the one transcribed in spec/CmdLang.tla (forms, optional quotes, optional '
        'single trailing semicolon, case-insensitive); whitespace variants, unbalanced quotes and unquoted roles are dontcare',
        'a query counts as forwarded iff a mock backend received its exact text',
    ]
    core.build_pgcat()
    res = tlc.run_tlc('CmdLang', 'CmdLang.cfg', workers=1)
    if res.rc != 0:
        v.tool_error('CmdLang rc=%d %s' % (res.rc, res.errors()[:2]))
        return v.finish()
    v.add_mc('gen:CmdLang', res)
    items = [o for t, o in res.prints if t == 'DESCRIPTOR']
    v.extra['descriptors'] = len(items)
    reps = {'quick': 1, 'thorough': 12}[tier]
    cfgs = [{'default_role': 'any', 'parser': False, 'rwsplit': False, 'primary_reads': True},
            {'default_role': 'replica', 'parser': True, 'rwsplit': True, 'primary_reads': False},
            {'default_role': 'primary', 'parser': True, 'rwsplit': False, 'primary_reads': True}]
    sessions = []
    idx = 0
    for rep in range(reps):
        for it in items:
            idx += 1
            r2 = random.Random(seed * 1000003 + idx)
            sessions.append(c13_session(r2, idx, it, dict(r2.choice(cfgs))))
    # command sequences from the Router model (SET/SHOW interplay), length 4
    scen = generate(v, 'Gen_Router_C13.cfg', '''SPECIFICATION GSpec
CONSTANTS
  Depth = %d
  GenClasses = {}
  GenKeys = {0, 1, 2, 3, 7}
  GenShows = {"show_role", "show_pr", "show_shard"}
INVARIANT Emit
''' % (3 if tier == 'quick' else 4))
    v.extra['sequences_generated'] = len(scen)
    rng.shuffle(scen)
    for s in scen[:{'quick': 1500, 'thorough': 30000}[tier]]:
        if not any(x['op'].startswith('show') for x in s['steps']):
            continue
        idx += 1
        r2 = random.Random(seed * 1000003 + idx)
        steps, meta = [], []
        for st in s['steps']:
            text = spell_command(r2, st['op'], st['arg'])
            steps.append({'kind': 'q', 'sql': text, 'tag': False})
            m = {'m': 'cmd', 'op': st['op'], 'arg': st['arg'], 'text': text}
            if st['op'] == 'set_shard':
                m['k'] = int(st['arg'])
            meta.append(m)
        sessions.append({'id': idx, 'cfg': dict(s['cfg']), 'steps': steps, 'meta': meta, 'descriptor': None,
                         'class': 'sequence', 'abstract': s['steps']})
    sessions.sort(key=lambda s: routing.cfg_key(s['cfg']))
    results = run_sessions(v, sessions)
    # sessions cut short (connection lost) are themselves evidence: the command got no well-formed reply
    recs_sessions = []
    for s, r in zip(sessions, results):
        if r is None:
            continue
        n = len(r.get('obs', []))
        s2 = dict(s)
        keep = [i for i in range(min(n, len(s['meta']))) if s['meta'][i]['m'] != 'skip']
        s2['steps'] = [s['steps'][i] for i in keep]
        s2['meta'] = [s['meta'][i] for i in keep]
        r2 = dict(r)
        r2['obs'] = [r['obs'][i] for i in keep]
        # msgs alignment: every step here is a single idle message
        r2['msgs'] = [r.get('msgs', [])[i] for i in keep if i < len(r.get('msgs', []))]
        recs_sessions.append((s2, r2))
    recs, notes = build_trace([a for a, b in recs_sessions], [b for a, b in recs_sessions])
    v.cov['evaluations'] = len(sessions)
    viol = validate(v, 'c13', recs)
    v.cov['traces_validated_against_impl'] = len(recs_sessions) if not v.tool_errors else 0
    byid = {s['id']: s for s in sessions}
    for s in sessions:
        if s['descriptor']:
            dd = s['descriptor']
            v.nontrivial_case('%s/%s/%s/%s/%s/%s/%s' % (dd['form'], dd['arg'], dd['mut'], dd['quote'], dd['semi'],
                                                       dd['casing'], dd['space']))
        else:
            v.nontrivial_case([x['op'] + ':' + x['arg'] for x in s['abstract']])
    for sid, vs in viol.items():
        s = byid[sid]
        for vi in vs:
            d = vi['detail']
            if vi['kind'] in ('wrong_role', 'wrong_shard', 'transaction_moved'):
                continue
            dd = s.get('descriptor')
            if vi['kind'] in ('command_forwarded', 'command_bad_reply'):
                sig = '%s/op=%s/arg=%s' % (vi['kind'], d.get('op'), dd['arg'] if dd and d.get('op') == 'opaque' else 'x')
                if d.get('op') == 'opaque' and dd:
                    sig = '%s/form=%s/arg=%s' % (vi['kind'], dd['form'], dd['arg'])
            elif vi['kind'] == 'show_wrong_value':
                sig = 'show_wrong_value/%s/want=%s/got=%s' % (d['op'], d['want'], d['got'])
            elif vi['kind'] in ('noncommand_handled', 'noncommand_modified'):
                sig = '%s/form=%s/mut=%s' % (vi['kind'], dd['form'] if dd else '?', dd['mut'] if dd else '?')
            else:
                sig = vi['kind']
            v.violation(sig, d, replay={'session': {'cfg': s['cfg'], 'texts': [m.get('text') for m in s['meta']],
                                                    'descriptor': dd}})
    # the pooler must survive every string, also the dontcare ones (checked by run_sessions: pgcat_died)
    negative_control_c13(v, recs)
    for s in sessions[:3]:
        v.add_sample({'cfg': s['cfg'], 'texts': [m.get('text') for m in s['meta']], 'class': s['class']})
    v.cov['rule'] = ('strings = every descriptor of spec/CmdLang.tla (7 documented forms x argument classes x one spelling '
                     'variation or one mutation at a time), rendered to text and sent through pgcat, each followed by SHOW '
                     'probes; plus SET/SHOW sequences of length 4 enumerated by TLC from Gen_Router; distinct = descriptors '
                     'and abstract sequences')
    return v.finish()


def negative_control_c13(v, recs):
    for i, r in enumerate(recs):
        if r['ev'] == 'cmd' and r['op'] == 'show_pr' and r['handled'] and r['reply_ok']:
            start = i
            while recs[start]['ev'] != 'reset':
                start -= 1
            seg = [dict(x) for x in recs[start:i + 1]]
            seg[-1]['value'] = 'on' if seg[-1]['value'] == 'off' else 'off'
            res, info = tlc.validate_trace('Trace_Router', 'Trace_Router.cfg', seg)
            if any(x['kind'] == 'show_wrong_value' for x in info['viol']):
                v.extra['negative_control'] = 'flipped a SHOW PRIMARY READS value: rejected'
            else:
                v.tool_error('negative control: corrupted SHOW value accepted')
            return
    v.tool_error('negative control: no SHOW PRIMARY READS in the trace')


# ---------------------------------------------------------------------------------- C06
import hashlib
import struct as _struct

# the 25 (key -> shard) pairs pgcat's own unit test derives from a real PostgreSQL (src/sharding.rs), n = 5
PG_VECTORS_N5 = None


def py_pg_shard(key, n):
    """Reference implementation of PostgreSQL's hashint8extended + partition modulus (used only to cross-check
    the TLA+ transcription on sampled keys; the verdicts come from TLC)."""
    M = 0xFFFFFFFF

    def rot(x, k):
        return ((x << k) | (x >> (32 - k))) & M
    u = key & 0xFFFFFFFFFFFFFFFF
    lo, hi = u & M, u >> 32
    lo ^= hi if key >= 0 else (~hi & M)
    a = b = c = (0x9e3779b9 + 4 + 3923095) & M
    seed = 0x7A5B22367996DCFD
    a = (a + (seed >> 32)) & M
    b = (b + (seed & M)) & M
    # mix
    a = (a - c) & M; a ^= rot(c, 4); c = (c + b) & M
    b = (b - a) & M; b ^= rot(a, 6); a = (a + c) & M
    c = (c - b) & M; c ^= rot(b, 8); b = (b + a) & M
    a = (a - c) & M; a ^= rot(c, 16); c = (c + b) & M
    b = (b - a) & M; b ^= rot(a, 19); a = (a + c) & M
    c = (c - b) & M; c ^= rot(b, 4); b = (b + a) & M
    a = (a + lo) & M
    # final
    c ^= b; c = (c - rot(b, 14)) & M
    a ^= c; a = (a - rot(c, 11)) & M
    b ^= a; b = (b - rot(a, 25)) & M
    c ^= b; c = (c - rot(b, 16)) & M
    a ^= c; a = (a - rot(c, 4)) & M
    b ^= a; b = (b - rot(a, 14)) & M
    c ^= b; c = (c - rot(b, 24)) & M
    h = (b << 32) | c
    h = (h + 0x49a0f4dd15e5a8e3) & 0xFFFFFFFFFFFFFFFF
    return h % n


def sha1_shard(key, n):
    hx = hashlib.sha1(str(key).encode()).hexdigest()
    return int(hx[-8:], 16) % n


KEYCLASS = {
    'zero': lambda r: 0, 'one': lambda r: 1, 'small': lambda r: r.randrange(2, 10 ** 6),
    'i32max': lambda r: 2 ** 31 - 1, 'i32max_plus': lambda r: 2 ** 31 + r.randrange(0, 100),
    'u32max': lambda r: 2 ** 32 - 1, 'u32max_plus': lambda r: 2 ** 32 + r.randrange(0, 10 ** 6),
    'big': lambda r: r.randrange(2 ** 40, 2 ** 62), 'i64max': lambda r: 2 ** 63 - 1,
    'neg_one': lambda r: -1, 'neg_small': lambda r: -r.randrange(2, 10 ** 6),
    'neg_big': lambda r: -r.randrange(2 ** 33, 2 ** 62), 'i64min': lambda r: -2 ** 63,
}
POS_CLASSES = ['zero', 'one', 'small', 'i32max', 'i32max_plus', 'u32max', 'u32max_plus', 'big', 'i64max']
NEG_CLASSES = ['neg_one', 'neg_small', 'neg_big', 'i64min']

PATH_CFG = {'default_role': 'any', 'parser': True, 'rwsplit': True, 'primary_reads': True,
            'automatic_sharding_key': 't.id',
            'sharding_key_regex': r'/\* sharding_key: (-?\d+) \*/', 'shard_id_regex': r'/\* shard_id: (\d+) \*/'}


def key_step(rng, path, key):
    """Concrete statement that carries `key` on routing path `path`; returns (step, sql)."""
    if path == 'comment':
        sql = '/* sharding_key: %d */ SELECT 1' % key
        return {'kind': 'q', 'sql': sql}, sql
    if path == 'literal':
        # spellings the router recognises as carrying the key ("accepted by the router"): an equality with the
        # (qualified or unambiguous) key column; IN-lists, an unqualified column in DELETE and negative literals are
        # not recognised by the pinned router and therefore outside the property's quantifier
        sql = rng.choice([
            'SELECT * FROM t WHERE id = %d', 'SELECT * FROM t WHERE t.id = %d', 'select a from t where a = 1 and id = %d',
            'INSERT INTO t (id, a) VALUES (%d, 7)', 'UPDATE t SET a = 2 WHERE id = %d', 'DELETE FROM t WHERE t.id = %d',
            'SELECT * FROM t JOIN u ON u.tid = t.id WHERE t.id = %d', 'SELECT * FROM public.t WHERE id = %d']) % key
        return {'kind': 'q', 'sql': sql}, sql
    if path in ('bind_text', 'bind_text_2nd'):
        if path == 'bind_text':
            sql = rng.choice(['SELECT * FROM t WHERE id = $1', 'SELECT * FROM t WHERE t.id = $1'])
            return {'kind': 'ext', 'sql': sql, 'params': [str(key)]}, sql
        sql = rng.choice(['SELECT * FROM t WHERE a = $1 AND id = $2', 'SELECT * FROM t WHERE a > $1 AND id = $2',
                          'SELECT * FROM t WHERE a LIKE $1 AND t.id = $2'])
        return {'kind': 'ext', 'sql': sql, 'params': [rng.choice(['x', '12345', 'hello world', '7']), str(key)]}, sql
    if path in ('bind_binary', 'bind_binary_2nd'):
        if -2 ** 15 <= key < 2 ** 15 and rng.random() < 0.3:
            enc = _struct.pack('!h', key)
        elif -2 ** 31 <= key < 2 ** 31 and rng.random() < 0.5:
            enc = _struct.pack('!i', key)
        else:
            enc = _struct.pack('!q', key)
        if path == 'bind_binary':
            sql = 'SELECT * FROM t WHERE id = $1'
            return {'kind': 'ext', 'sql': sql, 'params': [enc], 'fmts': [1]}, sql
        sql = rng.choice(['SELECT * FROM t WHERE a = $1 AND id = $2', 'SELECT * FROM t WHERE a < $1 AND id = $2'])
        first = rng.choice([(b'abc', 0), (_struct.pack('!i', 77), 1), (_struct.pack('!q', 123456789), 1)])
        return {'kind': 'ext', 'sql': sql, 'params': [first[0], enc], 'fmts': [first[1], 1]}, sql
    raise ValueError(path)


def check_c06(prop, tier, seed):
    v = core.Verdict(prop, tier, seed)
    rng = random.Random(seed)
    v.assumptions = [
        'spec/PgHash.tla is a faithful transcription of PostgreSQL hashfn.c hash_uint32_extended / hashint8extended / '
        'hash_combine64 (cross-checked in every run against an independent Python transcription and against the '
        'PostgreSQL-derived vectors in src/sharding.rs)',
        'SHA1 sharding: expected shards come from hashlib (outside what TLC decides); only agreement and persistence are decided',
        'keys are sampled (boundary classes + seeded random), not exhaustive over 2^32 folded values',
    ]
    core.build_pgcat()
    sessions = []
    idx = 0
    # ---- A. hash arithmetic: SET SHARDING KEY / SHOW SHARD, many keys, several shard counts
    nkeys = {'quick': 3000, 'thorough': 120000}[tier]
    ns = [2, 3, 5, 7, 12, 16, 64] if tier == 'quick' else [2, 3, 4, 5, 6, 7, 8, 9, 12, 16, 31, 64, 100]
    per = 150
    boundary = [0, 1, 2, 5, 6, 13, 1234, 2 ** 15, 2 ** 16 - 1, 2 ** 16, 2 ** 31 - 1, 2 ** 31, 2 ** 32 - 1, 2 ** 32, 2 ** 32 + 1,
                2 ** 33, 2 ** 48, 2 ** 63 - 1, 2 ** 63 - 2, 0x7A5B22367996DCFD, 0x00000000FFFFFFFF, 0xFFFFFFFF, 0x0000FFFF0000FFFF]
    made = 0
    while made < nkeys:
        n = ns[(made // per) % len(ns)]
        fn = 'sha1' if (made // per) % 9 == 8 else 'pg_bigint_hash'
        idx += 1
        r2 = random.Random(seed * 977 + idx)
        keys = []
        for j in range(per):
            c = r2.random()
            if c < 0.15:
                keys.append(r2.choice(boundary))
            elif c < 0.5:
                keys.append(r2.randrange(0, 2 ** 32))
            elif c < 0.7:
                keys.append(r2.randrange(0, 5000))
            else:
                keys.append(r2.randrange(0, 2 ** 63))
        steps, meta = [], []
        for k in keys:
            text = spell_command(r2, 'set_key', str(k))
            steps.append({'kind': 'q', 'sql': text, 'tag': False})
            if fn == 'sha1':
                meta.append({'m': 'cmd', 'op': 'set_key_ext', 'arg': str(k), 'text': text, 'expect': sha1_shard(k, n)})
            else:
                meta.append({'m': 'cmd', 'op': 'set_key', 'arg': str(k), 'text': text, 'key': k})
            steps.append({'kind': 'q', 'sql': 'SHOW SHARD', 'tag': False})
            meta.append({'m': 'cmd', 'op': 'show_shard', 'arg': '', 'text': 'SHOW SHARD'})
        sessions.append({'id': idx, 'cfg': {'hash_n': n, 'sharding_function': fn, 'default_role': 'any'}, 'nshards': n,
                         'steps': steps, 'meta': meta, 'family': 'hash', 'keys': keys, 'fn': fn})
        made += per
    # ---- B. path agreement, landing and stickiness on a 3-shard pool
    paths = ['set_key', 'comment', 'literal', 'bind_text', 'bind_binary', 'bind_text_2nd', 'bind_binary_2nd']
    nsess = {'quick': 700, 'thorough': 12000}[tier]
    # the same on a 12-shard pool (one primary per shard): shard numbers with two digits
    plan = [(routing.NSHARDS, j) for j in range(nsess)] + [(12, j) for j in range(max(60, nsess // 5))]
    for nsh, j in plan:
        idx += 1
        r2 = random.Random(seed * 613 + idx)
        steps, meta, abstract = [], [], []
        fn = 'sha1' if r2.random() < 0.1 else 'pg_bigint_hash'
        cfg = dict(PATH_CFG, sharding_function=fn)
        for _ in range(r2.randrange(1, 4)):
            what = r2.choice(['key', 'key', 'key', 'set_shard', 'shard_comment', 'plain'])
            if what == 'key':
                path = paths[(j + len(steps)) % len(paths)]
                cls = r2.choice(POS_CLASSES + (NEG_CLASSES if path not in ('set_key', 'literal') else []))
                key = KEYCLASS[cls](r2)
                switch = None
                if steps and r2.random() < 0.12:
                    # the sharding function is changed by a reload while this client stays connected: the statement that
                    # follows is the first of a transaction that starts afterwards
                    fn = 'pg_bigint_hash' if fn == 'sha1' else 'sha1'
                    switch = {'sharding_function': fn}
                ext = sha1_shard(key, nsh) if fn == 'sha1' else -1
                abstract.append('%s:%s' % (path, cls))
                if path == 'set_key':
                    text = spell_command(r2, 'set_key', str(key))
                    steps.append({'kind': 'q', 'sql': text, 'tag': False})
                    if switch:
                        steps[-1]['reload_before'] = switch
                        abstract[-1] += ':after_reload'
                    if fn == 'sha1':
                        meta.append({'m': 'cmd', 'op': 'set_key_ext', 'arg': str(key), 'text': text, 'expect': ext})
                    else:
                        meta.append({'m': 'cmd', 'op': 'set_key', 'arg': str(key), 'text': text, 'key': key})
                    steps.append({'kind': 'q', 'sql': 'SELECT 1'})
                    meta.append({'m': 'stmt', 'class': 'read', 'sql': 'SELECT 1', 'proto': 'simple', 'path': 'after_set_key'})
                else:
                    st, sql = key_step(r2, path, key)
                    if switch:
                        st['reload_before'] = switch
                        abstract[-1] += ':after_reload'
                        path = path + '_after_reload'
                    steps.append(st)
                    meta.append({'m': 'stmt', 'class': 'read', 'sql': sql, 'proto': 'extended' if st['kind'] == 'ext' else 'simple',
                                 'key': key, 'path': path + ':' + cls, 'ext': ext})
            elif what == 'set_shard':
                k = r2.choice([0, 1, 2, 3, 5, 100] if nsh == 3 else [0, 1, 2, 3, 9, 10, 11, 12, 100])
                abstract.append('set_shard:%d' % k)
                text = spell_command(r2, 'set_shard', str(k))
                steps.append({'kind': 'q', 'sql': text, 'tag': False})
                meta.append({'m': 'cmd', 'op': 'set_shard', 'arg': str(k), 'text': text, 'k': k})
                steps.append({'kind': 'q', 'sql': 'SHOW SHARD', 'tag': False})
                meta.append({'m': 'cmd', 'op': 'show_shard', 'arg': '', 'text': 'SHOW SHARD'})
            elif what == 'shard_comment':
                k = r2.randrange(nsh)
                abstract.append('shard_comment:%d' % k)
                sql = '/* shard_id: %d */ SELECT 1' % k
                steps.append({'kind': 'q', 'sql': sql})
                meta.append({'m': 'stmt', 'class': 'read', 'sql': sql, 'proto': 'simple', 'path': 'shard_id_comment', 'setshard': k})
            else:
                abstract.append('plain')
                sql = r2.choice(['SELECT 1', 'SELECT * FROM u WHERE x = 3', 'INSERT INTO u VALUES (1)'])
                steps.append({'kind': 'q', 'sql': sql})
                meta.append({'m': 'stmt', 'class': 'read', 'sql': sql, 'proto': 'simple', 'path': 'sticky'})
        # final probe: the selection persists
        steps.append({'kind': 'q', 'sql': 'SELECT 2'})
        meta.append({'m': 'stmt', 'class': 'read', 'sql': 'SELECT 2', 'proto': 'simple', 'path': 'sticky'})
        if any(st.get('reload_before') for st in steps):
            cfg = dict(cfg, uniq=idx)       # a pool of its own: the reload must not change the pool under other sessions
        sess = {'id': idx, 'cfg': cfg, 'steps': steps, 'meta': meta, 'family': 'paths', 'abstract': abstract}
        if nsh != routing.NSHARDS:
            sess['nshards'] = nsh
            sess['layout12'] = True
        sessions.append(sess)
    # out-of-range shard id comment: an error, never another shard
    for j in range(20 if tier == 'quick' else 200):
        idx += 1
        r2 = random.Random(seed * 31 + idx)
        k = r2.choice([3, 4, 17, 1000])
        sql = '/* shard_id: %d */ SELECT 1' % k
        sessions.append({'id': idx, 'cfg': dict(PATH_CFG), 'steps': [{'kind': 'q', 'sql': sql}],
                         'meta': [{'m': 'oor', 'sql': sql}], 'family': 'oor', 'abstract': ['shard_comment_oor']})
    sessions.sort(key=lambda s: (bool(s.get('layout12')), routing.cfg_key(s['cfg'])))
    small = [s for s in sessions if not s.get('layout12')]
    wide = [s for s in sessions if s.get('layout12')]
    results = run_sessions(v, small, per_batch=40) + run_sessions(v, wide, per_batch=20, layout={'nshards': 12, 'replicas': 0})
    # oracle self-check: TLA+ PgShard vs Python transcription vs src/sharding.rs vectors is done by TLC on the trace
    # (set_key events) and here for the Python side
    tr_sessions, tr_results = [], []
    for s, r in zip(sessions, results):
        if r is None or not r.get('obs'):
            v.tool_error('session %s did not run: %s' % (s['id'], (r or {}).get('error')))
            continue
        if s['family'] == 'oor':
            o = r['obs'][0]
            if o.get('landed'):
                v.violation('out_of_range_shard_executed', {'sql': s['meta'][0]['sql'], 'landed': o['landed']},
                            replay={'session': s['meta']})
            elif not o.get('errors'):
                v.violation('out_of_range_shard_no_error', {'sql': s['meta'][0]['sql'], 'reply': o.get('kinds')},
                            replay={'session': s['meta']})
            v.nontrivial_case('oor')
            continue
        tr_sessions.append(s)
        tr_results.append(r)
    recs, notes = build_trace(tr_sessions, tr_results)
    v.cov['evaluations'] = len(sessions)
    viol = validate(v, 'c06', recs)
    v.cov['traces_validated_against_impl'] = len(tr_sessions) if not v.tool_errors else 0
    # cross-check of the oracle itself (not a verdict on pgcat): python transcription vs what TLC accepted
    mism = 0
    nkey = 0
    for s, r in zip(tr_sessions, tr_results):
        if s['family'] != 'hash' or s['fn'] != 'pg_bigint_hash':
            continue
        obs = r['obs']
        for i, k in enumerate(s['keys']):
            if 2 * i + 1 < len(obs) and obs[2 * i + 1].get('rows'):
                nkey += 1
                got = obs[2 * i + 1]['rows'][0][0]
                if str(py_pg_shard(k, s['nshards'])) != got:
                    mism += 1
    v.extra['hash_keys_checked'] = nkey
    v.extra['python_oracle_disagreements_with_pgcat'] = mism
    byid = {s['id']: s for s in sessions}
    for s in sessions:
        if s['family'] == 'paths':
            for a in s['abstract']:
                v.nontrivial_case(a)
        elif s['family'] == 'hash':
            v.nontrivial_case('hash:n=%d:%s' % (s['nshards'], s['fn']))
    for sid, vs in viol.items():
        s = byid[sid]
        for vi in vs:
            d = vi['detail']
            if vi['kind'] == 'wrong_shard':
                path = d.get('path', '') or 'after_set_key'
                sig = 'wrong_shard/path=%s' % path
            elif vi['kind'] == 'show_wrong_value':
                sig = 'wrong_shard/path=set_sharding_key/n=%s' % s.get('nshards', 3)
            elif vi['kind'] in ('wrong_role', 'transaction_moved'):
                continue
            else:
                sig = vi['kind']
            v.violation(sig, d, replay={'session': {'cfg': s['cfg'], 'texts': [m.get('text') or m.get('sql') for m in s['meta']][:12]}})
    if mism and not viol:
        v.tool_error('oracle inconsistency: Python transcription disagrees with pgcat on %d keys while TLC accepted them' % mism)
    negative_control_c06(v, recs)
    for s in sessions[:2] + [x for x in sessions if x['family'] == 'paths'][:2]:
        v.add_sample({'cfg': s['cfg'], 'texts': [m.get('text') or m.get('sql') for m in s['meta']][:8]})
    v.cov['rule'] = ('(A) %d keys (boundaries, dense, uniform 32/63-bit) over shard counts %s: SET SHARDING KEY + SHOW SHARD, '
                     'expected shard computed by TLC from spec/PgHash.tla; (B) %d sessions mixing the routing paths '
                     '(SET SHARDING KEY, sharding_key comment, literal = automatic sharding key, bound text/binary parameter in '
                     '1st/2nd position, SET SHARD, shard_id comment) with landing on shard-labelled backends and a stickiness '
                     'probe; distinct = path:keyclass combinations and (n, function) pairs' % (made, ns, nsess))
    return v.finish()


def negative_control_c06(v, recs):
    for i, r in enumerate(recs):
        if r['ev'] == 'cmd' and r['op'] == 'show_shard' and i > 0 and recs[i - 1]['ev'] == 'cmd' and recs[i - 1]['op'] == 'set_key':
            start = i
            while recs[start]['ev'] != 'reset':
                start -= 1
            seg = [dict(recs[start]), dict(recs[i - 1]), dict(r)]
            n = seg[0]['cfg']['nshards']
            seg[2]['value'] = str((int(seg[2]['value']) + 1) % n)
            res, info = tlc.validate_trace('Trace_Router', 'Trace_Router.cfg', seg)
            if any(x['kind'] == 'show_wrong_value' for x in info['viol']):
                v.extra['negative_control'] = 'shard reported for one key shifted by one: rejected by PgHash'
            else:
                v.tool_error('negative control: shifted shard accepted')
            return
    v.tool_error('negative control: no SET SHARDING KEY / SHOW SHARD pair')
