"""Check C07: broken replicas are banned and bypassed; service continues on healthy servers."""
import json
import os
import random
import time

from . import core, tlc
from . import pgwire as W
from .client import Client
from .world import World, simple_pool

CONNECT_MS = 500
HC_MS = 400
STMT_MS = 1500
BAN_S = 2


def run_scenario(item):
    rng = random.Random(item['seed'])
    servers = item['servers']          # e.g. ['p', 'r1', 'r2']
    out = {'id': item['id'], 'recs': [], 'notes': []}
    recs = out['recs']
    with World('fo') as w:
        be = {}
        cfg_servers = []
        for s in servers:
            be[s] = w.backend(s)
            cfg_servers.append(['127.0.0.1', be[s].port, 'primary' if s == 'p' else 'replica'])
        pool = simple_pool(cfg_servers, pool_size=2, user={'statement_timeout': STMT_MS})
        pool['load_balancing_mode'] = item.get('lb', 'random')
        w.start(general={'connect_timeout': CONNECT_MS, 'healthcheck_timeout': HC_MS, 'healthcheck_delay': 0, 'ban_time': BAN_S},
                pools={'db': pool})
        t_start = time.time()
        name_of = {i: s for i, s in enumerate(servers)}
        recs.append({'ev': 'reset', 'sc': item['id'], 'servers': servers, 'bantime_ds': BAN_S * 10})
        hpos = [len(w.hooks())]
        cl = Client(w.port, name='T', timeout=8.0)
        holders = []

        def hook_delta():
            hs = w.hooks()
            new = hs[hpos[0]:]
            hpos[0] = len(hs)
            banned = [name_of.get(h['addr'], '?') for h in new if h['ev'] == 'banned']
            unbanned = [name_of.get(h['addr'], '?') for h in new if h['ev'] == 'unban']
            # "all_banned" unban clears every replica
            if any(h['ev'] == 'unban' and h.get('why') == 'all_banned' for h in new):
                unbanned = [s for s in servers if s != 'p']
            tried = [name_of.get(h['addr'], '?') for h in new if h['ev'] == 'connect_fail' or (h['ev'] == 'health_check' and not h['ok'])]
            checkout = [name_of.get(h['addr'], '?') for h in new if h['ev'] == 'checkout_ok']
            # order matters for ban-then-unban inside one step: the last event wins
            final_b, final_u = [], []
            for h in new:
                if h['ev'] == 'banned':
                    n = name_of.get(h['addr'], '?')
                    final_b.append(n)
                    if n in final_u:
                        final_u.remove(n)
                elif h['ev'] == 'unban':
                    ns = [s for s in servers if s != 'p'] if h.get('why') == 'all_banned' else [name_of.get(h['addr'], '?')]
                    for n in ns:
                        if n in final_b:
                            final_b.remove(n)
                        if n not in final_u:
                            final_u.append(n)
            return {'banned': final_b, 'unbanned': final_u, 'tried_failed': sorted(set(tried)), 'checkout': checkout,
                    'banned_seen': sorted(set(banned)), 'unbanned_seen': sorted(set(unbanned))}

        def now_ds():
            return int((time.time() - t_start) * 10)

        def late_events():
            # ban-list changes that arrived between two steps (the tail of an abandoned transaction) stay in the history
            d = hook_delta()
            if d['banned'] or d['unbanned']:
                recs.append({'ev': 'tick', 't': now_ds(), 'banned': d['banned'], 'unbanned': d['unbanned']})

        for st in item['steps']:
            op = st['op']
            if op == 'fault':
                be[st['s']].fault(st['a'])
                time.sleep(0.05)
                d = hook_delta()
                recs.append({'ev': 'fault', 's': st['s'], 'm': st['a'], 't': now_ds(), 'banned': d['banned'], 'unbanned': d['unbanned']})
            elif op == 'tick':
                time.sleep(1.05)
                d = hook_delta()
                recs.append({'ev': 'tick', 't': now_ds(), 'banned': d['banned'], 'unbanned': d['unbanned']})
            elif op == 'ban':
                dur = BAN_S
                rep = w.admin_cmd('BAN 127.0.0.1 %d' % dur)
                # BAN addresses a host: every replica on it; only the replica of this step matters to the model, the others
                # are unbanned again right away
                # (the hook trace is a file written by another process: give the records of this command a moment to appear)
                want_b = len([s2 for s2 in servers if s2 != 'p'])
                deadline = time.time() + 0.6
                while time.time() < deadline:
                    if len([h for h in w.hooks()[hpos[0]:] if h['ev'] == 'banned']) >= want_b:
                        break
                    time.sleep(0.02)
                d = hook_delta()
                recs.append({'ev': 'admin_ban', 's': st['s'], 'duration_ds': dur * 10, 't': now_ds(), 'banned': d['banned'],
                             'unbanned': d['unbanned'], 'host_wide': True})
            elif op == 'unban':
                rep = w.admin_cmd('UNBAN 127.0.0.1')
                time.sleep(0.02)
                d = hook_delta()
                recs.append({'ev': 'admin_unban', 's': st['s'], 't': now_ds(), 'banned': d['banned'], 'unbanned': d['unbanned']})
            elif op == 'hold':
                # a second client keeps a transaction open on server st['s']
                want = st['s']
                try:
                    hc = Client(w.port, name='HOLD', timeout=6.0)
                    hc.query("SET SERVER ROLE TO '%s'" % ('primary' if want == 'p' else 'replica'), tagged=False)
                    for _ in range(8):
                        r1 = hc.query('BEGIN')
                        r2 = hc.query('SELECT 1') if r1.end == 'Z' and not r1.errors else r1
                        e2 = r2.echoes()
                        if r2.end == 'Z' and e2 and e2[0]['be'] == want:
                            holders.append(hc)
                            break
                        if r2.end != 'Z':
                            break
                        hc.query('ROLLBACK')
                    else:
                        hc.close()
                except OSError:
                    pass
                # what the second client's transactions did to the ban list (all replicas banned: the bans are cleared)
                # belongs to the history like a wait's
                d = hook_delta()
                recs.append({'ev': 'tick', 't': now_ds(), 'banned': d['banned'], 'unbanned': d['unbanned']})
            elif op == 'tx_abandon':
                # the client resets its connection right after sending the statement
                req = st['a']
                if cl.dead or cl.sock is None:
                    cl = Client(w.port, name='T', timeout=8.0)
                r0 = cl.query("SET SERVER ROLE TO '%s'" % req, tagged=False)
                if r0.end != 'Z':
                    cl.close()
                    cl = Client(w.port, name='T', timeout=8.0)
                    cl.query("SET SERVER ROLE TO '%s'" % req, tagged=False)
                late_events()
                t0 = now_ds()
                mark = w.log.mark()
                cl.send(W.Q('SELECT 1 ' + cl.tag()))
                ex = w.wait_backend_event(lambda e: e.get('ev') == 'exec' and e.get('client') == 'T' and e.get('n') == cl.serial,
                                          timeout=(CONNECT_MS + HC_MS) * 4 / 1000.0 + 1.0, since=mark)
                cl.abort()
                cl.dead = True
                time.sleep(0.75)
                d = hook_delta()
                by = ex['be'] if ex else (d['checkout'][-1] if d['checkout'] else 'none')
                if by != 'none' and be[by].fault_kind == 'dies_under_statement':
                    result = 'failed'
                elif ex is not None:
                    result = 'served'
                else:
                    result = 'abandoned'
                recs.append({'ev': 'tx', 'req': req, 'result': result, 'by': by, 't0': t0, 't': now_ds(), 'secs_ds': 0,
                             'bound_ds': 1000, 'banned': d['banned'], 'unbanned': d['unbanned'],
                             'tried_failed': d['tried_failed'], 'error': 'client gone',
                             'banned_seen': d['banned_seen'], 'unbanned_seen': d['unbanned_seen']})
            elif op == 'tx':
                req = st['a']
                if cl.dead or cl.sock is None:
                    cl = Client(w.port, name='T', timeout=8.0)
                r0 = cl.query("SET SERVER ROLE TO '%s'" % req, tagged=False)
                if r0.end != 'Z':
                    cl.close()
                    cl = Client(w.port, name='T', timeout=8.0)
                    cl.query("SET SERVER ROLE TO '%s'" % req, tagged=False)
                late_events()
                t0 = now_ds()
                t_a = time.time()
                rep = cl.query('SELECT 1', timeout=10.0)
                secs = time.time() - t_a
                time.sleep(0.03)
                d = hook_delta()
                e = rep.echoes()
                err = (rep.errors[0].get('M', '') if rep.errors else '')
                if rep.end == 'Z' and e and not rep.errors:
                    result, by = 'served', e[0]['be']
                elif rep.end == 'TIMEOUT':
                    result, by = 'hung', 'none'
                elif 'could not get connection from the pool' in err:
                    result, by = 'refused', 'none'
                else:
                    result = 'failed'
                    by = d['checkout'][-1] if d['checkout'] else 'none'
                if rep.end != 'Z':
                    cl.dead = True
                    cl.close()
                ncand = len([s for s in servers if req == 'any' or (s == 'p') == (req == 'primary')])
                bound = (CONNECT_MS + HC_MS) * max(1, ncand) + STMT_MS + 2500
                recs.append({'ev': 'tx', 'req': req, 'result': result, 'by': by, 't0': t0, 't': now_ds(), 'secs_ds': int(secs * 10),
                             'bound_ds': bound // 100, 'banned': d['banned'], 'unbanned': d['unbanned'],
                             'tried_failed': d['tried_failed'], 'error': err[:80],
                             'banned_seen': d['banned_seen'], 'unbanned_seen': d['unbanned_seen']})
        out['alive'] = w.alive()
        for hc in holders:
            hc.close()
        cl.close()
    return out


def fix_admin(recs):
    """Admin BAN/UNBAN address a host, i.e. all replicas on 127.0.0.1: nothing to adjust in the records (the hook
    events say exactly which addresses were banned / unbanned)."""
    return recs


def check_c07(prop, tier, seed):
    v = core.Verdict(prop, tier, seed)
    rng = random.Random(seed)
    v.assumptions = [
        'fault modes of the mock servers: refuse (accept and close, pooled connections killed), hang (no answer), '
        'badcheck (closes on the health-check query), dies_under_statement (closes when a client statement arrives)',
        'ban clock granularity is one second: a ban counts as in force until ban_time - 0.2 s and as over after ban_time + 1.5 s',
        'a recovered server whose stale pooled connection fails in the very transaction that tries it is not counted as usable',
        'when the only healthy candidates are banned the outcome of that transaction is not constrained',
    ]
    core.build_pgcat()
    res = tlc.run_tlc('Failover', 'MC_Failover.cfg', workers=8, coverage=True)
    v.add_mc('mc:design', res)
    if res.rc != 0:
        v.tool_error('Failover design rc=%d %s' % (res.rc, res.errors()[:2]))
    for d in ('primary_bannable', 'banned_still_used', 'no_fallback', 'no_ban_on_failed_check', 'no_unban_all'):
        r2 = tlc.run_tlc('Failover', 'MC_Failover_dev_%s.cfg' % d, workers=8)
        v.add_mc('mc:dev:' + d, r2)
        if not r2.invariant_violated:
            v.tool_error('Failover deviation %s not detected' % d)
        else:
            v.extra.setdefault('model_negative_control', []).append('%s violates %s' % (d, r2.invariant_violated))
    n = {'quick': 150, 'thorough': 2500}[tier]
    scen = []
    for reps, hasp in (('{"r1", "r2"}', 'TRUE'), ('{"r1"}', 'TRUE'), ('{"r1", "r2"}', 'FALSE'), ('{}', 'TRUE'), ('{"r1", "r2", "r3"}', 'TRUE')):
        cfg = 'Gen_Failover_%d_%s.cfg' % (reps.count('r'), hasp)
        with open(os.path.join(tlc.SPEC, cfg), 'w') as f:
            f.write('SPECIFICATION GSpec\nCONSTANTS\n  Replicas = %s\n  HasPrimary = %s\n  BanTime = 2\n  MaxOps = 6\n  Dev = {}\nINVARIANT Emit\n' % (reps, hasp))
        res = tlc.run_tlc('Gen_Failover', cfg, workers=1, simulate=n * 2, depth=8, seed=seed, timeout=600)
        if res.rc != 0:
            v.tool_error('Gen_Failover %s rc=%d %s' % (cfg, res.rc, res.errors()[:2]))
            continue
        v.add_mc('gen(simulate):' + cfg, res)
        servers = (['p'] if hasp == 'TRUE' else []) + ['r%d' % i for i in range(1, reps.count('r') + 1)]
        seen = set()
        for t, o in res.prints:
            if t == 'SCENARIO':
                k = json.dumps(o)
                if k not in seen and sum(1 for x in o if x['op'] in ('tx', 'tx_abandon')) >= 2 and any(x['op'] == 'fault' for x in o):
                    seen.add(k)
                    scen.append({'steps': o, 'servers': servers})
    rng.shuffle(scen)

    def score(s):
        ops = [x['op'] for x in s['steps']]
        return ops.count('tx') + 2 * len({x['a'] for x in s['steps'] if x['op'] == 'fault'}) + ('ban' in ops) + ('unban' in ops) + ('tick' in ops)
    scen.sort(key=lambda s: -score(s))

    def special(s2):
        # rare interplays get a quota: a server that fails while a transaction is in flight on it; a transaction abandoned
        # by its client on a server that dies under statements
        st = s2['steps']
        out = set()
        for i, x in enumerate(st):
            if x['op'] == 'hold':
                for j in range(i + 1, len(st)):
                    if st[j]['op'] == 'fault' and st[j]['s'] == x['s'] and st[j]['a'] in ('refuse', 'hang', 'startup_error') and \
                            any(y['op'] == 'tx' for y in st[j + 1:]):
                        out.add('fails_while_busy')
            if x['op'] == 'fault' and x['a'] == 'dies_under_statement' and any(y['op'] == 'tx_abandon' for y in st[i + 1:]):
                out.add('abandoned_on_dying')
            if x['op'] == 'fault' and x['a'] == 'startup_error' and any(y['op'] == 'fault' and y['s'] == x['s'] and y['a'] == 'up'
                                                                       for y in st[i + 1:]):
                out.add('startup_error_then_back')
        return out
    chosen = []
    for kind in ('fails_while_busy', 'abandoned_on_dying', 'startup_error_then_back'):
        chosen += [s2 for s2 in scen if kind in special(s2) and s2 not in chosen][:max(6, n // 8)]
    chosen += [s2 for s2 in scen if s2 not in chosen][:n - len(chosen)]
    v.extra['scenarios_generated'] = len(scen)
    items = [{'id': j + 1, 'steps': s['steps'], 'servers': s['servers'], 'seed': seed * 29 + j, 'lb': 'loc' if j % 4 == 3 else 'random'}
             for j, s in enumerate(chosen)]
    results = core.run_parallel(run_scenario, items, workers=14)
    recs = []
    ok = []
    for it, r in zip(items, results):
        if 'error' in r:
            v.tool_error('failover scenario crashed: ' + r['error'][-500:])
            continue
        ok.append((it, r))
        recs += r['recs']
        if not r.get('alive', True):
            v.violation('pgcat_died', {}, replay=it)
        if any(x['ev'] == 'tx' and (x['banned'] or x['tried_failed']) for x in r['recs']):
            v.nontrivial_case(json.dumps(it['steps']) + ','.join(it['servers']))
    v.cov['evaluations'] = len(ok)
    res, info = tlc.validate_trace('Trace_Failover', 'Trace_Failover.cfg', recs, timeout=900)
    v.add_mc('trace', res)
    if info['matched'] != info['total']:
        v.tool_error('Trace_Failover consumed %s of %s: %s' % (info['matched'], info['total'], res.errors()[:2] or res.out[-500:]))
    else:
        v.cov['traces_validated_against_impl'] = len(ok)
    byid = {it['id']: (it, r) for it, r in ok}
    for vi in info['viol']:
        it, r = byid[vi['sc']]
        v.violation(vi['kind'], vi['detail'], replay={'item': it, 'trace': r['recs']})
    # negative control
    done = False
    for it, r in ok:
        idx = [i for i, x in enumerate(r['recs']) if x['ev'] == 'tx' and x['banned'] and 'p' in it['servers']]
        if idx:
            seg = [json.loads(json.dumps(x)) for x in r['recs'][:idx[0] + 1]]
            seg[-1]['banned'] = seg[-1]['banned'] + ['p']
            res2, info2 = tlc.validate_trace('Trace_Failover', 'Trace_Failover.cfg', seg)
            if any(x['kind'] == 'primary_banned' for x in info2['viol']):
                v.extra['negative_control'] = 'added the primary to one ban event: rejected'
            else:
                v.tool_error('negative control failed')
            done = True
            break
    if not done:
        v.tool_error('negative control: no transaction banned anything (vacuous)')
    for it, r in ok[:2]:
        v.add_sample({'servers': it['servers'], 'steps': [(x['op'], x['s'], x['a']) for x in it['steps']], 'trace': r['recs'][1:5]})
    v.cov['rule'] = ('scenarios = random behaviours (tlc -simulate, seeded) of Gen_Failover over shards with 0-3 replicas, with / '
                     'without primary: 6 steps of {fault(server, mode), tick, admin BAN, admin UNBAN, transaction(role)}; '
                     'random and least-outstanding-connections balancing; non-trivial = some transaction banned a server or '
                     'found one broken; distinct = scenarios')
    return v.finish()
