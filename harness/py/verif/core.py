"""Check framework: build, parallel scenario execution, verdicts, evidence, known findings."""
import hashlib
import json
import multiprocessing
import os
import random
import subprocess
import sys
import time
import traceback

from .world import VERIF, WORK, REPO, BIN

EVIDENCE = os.path.join(VERIF, 'evidence')
REPLAYS = os.path.join(EVIDENCE, 'replays')
FINDINGS = os.path.join(VERIF, 'known_findings.json')
TARGET = os.path.join(VERIF, '.build', 'target')


class ToolError(Exception):
    pass


def build_pgcat(quiet=True):
    """Rebuild the pgcat binary from /repo's working tree with hooks on."""
    env = dict(os.environ)
    env['CARGO_PROFILE_RELEASE_OPT_LEVEL'] = '1'
    env['CARGO_NET_OFFLINE'] = 'true'
    cmd = ['cargo', 'build', '--release', '--offline', '--features', 'verif', '--bin', 'pgcat',
           '--manifest-path', os.path.join(REPO, 'Cargo.toml'), '--target-dir', TARGET]
    t0 = time.time()
    p = subprocess.run(cmd, env=env, stdout=subprocess.PIPE, stderr=subprocess.STDOUT, text=True)
    if p.returncode != 0:
        sys.stderr.write(p.stdout[-4000:])
        raise ToolError('cargo build failed')
    if not os.path.exists(BIN):
        raise ToolError('no binary at ' + BIN)
    return time.time() - t0


def _call(args):
    func, item = args
    for attempt in range(3):
        try:
            return func(item)
        except Exception:
            err = traceback.format_exc()
            # a listening port of the harness's own world (mock server or pgcat) was taken by another process between
            # picking and binding it: not an observation about pgcat - the scenario is run again
            if attempt < 2 and ('AddrInUse' in err or 'Errno 98' in err or 'Address already in use' in err):
                time.sleep(0.2 * (attempt + 1))
                continue
            return {'error': err, 'item': item if isinstance(item, (dict, list, str, int)) else repr(item)}


def run_parallel(func, items, workers=12):
    """Run func(item) for every item in worker processes; results in input order."""
    if not items:
        return []
    if workers <= 1 or len(items) == 1:
        return [_call((func, it)) for it in items]
    ctx = multiprocessing.get_context('fork')
    with ctx.Pool(processes=min(workers, len(items))) as pool:
        return pool.map(_call, [(func, it) for it in items], chunksize=1)


def load_findings():
    try:
        with open(FINDINGS) as f:
            return json.load(f)
    except FileNotFoundError:
        return {'known': [], 'fixed': []}


def seed_from_env():
    try:
        return int(os.environ.get('VERIF_SEED', '1'))
    except ValueError:
        return 1


class Verdict:
    """Collects violations of one property check and produces exit code + evidence."""

    def __init__(self, prop, tier, seed):
        self.prop = prop
        self.tier = tier
        self.seed = seed
        self.t0 = time.time()
        self.violations = []     # dicts: sig, detail, replay (object)
        self.known_hit = {}
        self.tool_errors = []
        self.cov = {'states': 0, 'transitions': 0, 'traces_validated_against_impl': 0, 'evaluations': 0,
                    'distinct_nontrivial': 0, 'samples': [], 'rule': ''}
        self.extra = {}
        self.assumptions = []
        self.nontrivial = set()
        findings = load_findings()
        self.known = [k for k in findings.get('known', []) if k.get('property') == prop]

    # ---- coverage accounting
    def add_mc(self, name, res):
        self.cov['states'] += res.distinct
        self.cov['transitions'] += res.generated
        self.extra.setdefault('tlc_runs', []).append(
            {'run': name, 'distinct': res.distinct, 'generated': res.generated, 'depth': res.depth,
             'wall_s': round(res.wall, 1), 'rc': res.rc})

    def add_sample(self, obj):
        if len(self.cov['samples']) < 4:
            self.cov['samples'].append(obj)

    def nontrivial_case(self, key):
        self.nontrivial.add(key if isinstance(key, str) else json.dumps(key, sort_keys=True))

    # ---- violations
    def violation(self, sig, detail, replay=None):
        for k in self.known:
            if sig_matches(k.get('sig', ''), sig):
                self.known_hit.setdefault(k['sig'], {'what': k.get('what', ''), 'count': 0, 'example': detail})
                self.known_hit[k['sig']]['count'] += 1
                return False
        self.violations.append({'sig': sig, 'detail': detail, 'replay': replay})
        return True

    def tool_error(self, msg):
        import re
        msg = re.sub(r'\x1b\[[0-9;]*m', '', msg)
        if len(self.tool_errors) < 20:
            self.tool_errors.append(msg[:1500])

    # ---- finish
    def finish(self):
        os.makedirs(REPLAYS, exist_ok=True)
        self.cov['distinct_nontrivial'] = len(self.nontrivial)
        wall = time.time() - self.t0
        ev = {
            'property_id': self.prop, 'tier': self.tier, 'seed': self.seed, 'level': 'model_checking',
            'coverage': dict(self.cov, **self.extra),
            'assumptions': self.assumptions, 'wall_s': round(wall, 2), 'violations': len(self.violations),
        }
        ev['coverage']['known_findings_reproduced'] = [
            {'sig': s, 'count': v['count'], 'what': v['what']} for s, v in sorted(self.known_hit.items())]
        if self.tool_errors:
            ev['coverage']['tool_errors'] = self.tool_errors[:10]
        if not ev['coverage']['samples']:
            ev['coverage']['samples'] = ['(no sample recorded)']
        rc = 0
        lines = []
        for sig, v in sorted(self.known_hit.items()):
            lines.append('KNOWN-FINDING: property=%s %s (%s; reproduced %d times)' % (self.prop, sig, v['what'], v['count']))
        import glob
        for old in glob.glob(os.path.join(REPLAYS, '%s_%s_*.json' % (self.prop, self.tier))):
            try:
                os.unlink(old)
            except OSError:
                pass
        if self.violations:
            rc = 1
            seen = set()
            for i, v in enumerate(self.violations):
                if v['sig'] in seen:
                    continue
                seen.add(v['sig'])
                path = os.path.join(REPLAYS, '%s_%s_%d.json' % (self.prop, self.tier, len(seen)))
                with open(path, 'w') as f:
                    json.dump({'property': self.prop, 'sig': v['sig'], 'detail': v['detail'], 'replay': v['replay'],
                               'seed': self.seed}, f, indent=1, default=repr)
                lines.append('VIOLATION property=%s replay=%s' % (self.prop, path))
                lines.append('  signature: %s' % v['sig'])
                lines.append('  detail: %s' % json.dumps(v['detail'], default=repr)[:600])
            ev['coverage']['violation_signatures'] = sorted(seen)
        elif self.tool_errors:
            rc = 2
            for e in self.tool_errors[:5]:
                lines.append('TOOL-ERROR: %s' % e[:500])
        os.makedirs(EVIDENCE, exist_ok=True)
        with open(os.path.join(EVIDENCE, self.prop + '.json'), 'w') as f:
            json.dump(ev, f, indent=1, default=repr)
        for ln in lines:
            print(ln)
        print('%s %s: states=%d transitions=%d traces=%d scenarios=%d nontrivial=%d violations=%d known=%d wall=%.1fs'
              % (self.prop, self.tier, self.cov['states'], self.cov['transitions'],
                 self.cov['traces_validated_against_impl'], self.cov['evaluations'],
                 self.cov['distinct_nontrivial'], len(self.violations), len(self.known_hit), wall))
        return rc


def sig_matches(pattern, sig):
    """Known-finding patterns are exact signatures or use '*' as a wildcard for one segment."""
    if pattern == sig:
        return True
    pp = pattern.split('/')
    ss = sig.split('/')
    if len(pp) != len(ss):
        return False
    for a, b in zip(pp, ss):
        if a == '*':
            continue
        if '|' in a:
            if b not in a.split('|'):
                return False
        elif a != b:
            return False
    return True


def pick(rng, items, n):
    items = list(items)
    if len(items) <= n:
        return items
    return rng.sample(items, n)


def stable_hash(obj):
    return hashlib.sha1(json.dumps(obj, sort_keys=True, default=repr).encode()).hexdigest()[:12]
