"""Scripted PostgreSQL client used to drive pgcat over loopback TCP."""
import hashlib
import json
import socket
import ssl
import struct
import time

from . import pgwire as W


class Reply:
    """Messages received for one request, up to ReadyForQuery / EOF / timeout."""

    def __init__(self, msgs, end):
        self.msgs = msgs        # list of (type str, body bytes)
        self.end = end          # 'Z' | 'EOF' | 'TIMEOUT'

    @property
    def status(self):
        for t, b in reversed(self.msgs):
            if t == 'Z':
                return b.decode()
        return None

    @property
    def errors(self):
        return [W.parse_error_fields(b) for t, b in self.msgs if t == 'E']

    @property
    def error(self):
        e = self.errors
        return e[0] if e else None

    @property
    def rows(self):
        return [W.parse_datarow(b) for t, b in self.msgs if t == 'D']

    @property
    def tags(self):
        return [b.rstrip(b'\0').decode(errors='replace') for t, b in self.msgs if t == 'C']

    @property
    def kinds(self):
        return ''.join(t for t, _ in self.msgs)

    def echoes(self):
        """Decoded echo objects the mock backend puts into the first row of each result."""
        out = []
        for r in self.rows:
            if r and r[0] and r[0].startswith(b'{'):
                try:
                    txt = r[0].decode()
                    out.append(json.loads(txt[:txt.index('}') + 1]))
                except Exception:
                    pass
        return out

    def raw(self):
        return b''.join(W.msg(t.encode(), b) for t, b in self.msgs)

    def brief(self):
        parts = []
        for t, b in self.msgs:
            if t == 'E':
                f = W.parse_error_fields(b)
                parts.append('E[%s:%s]' % (f.get('C', ''), f.get('M', '')[:60]))
            elif t == 'Z':
                parts.append('Z' + b.decode())
            elif t == 'C':
                parts.append('C[%s]' % b.rstrip(b'\0').decode(errors='replace'))
            else:
                parts.append(t)
        return ' '.join(parts) + ('' if self.end == 'Z' else ' <' + self.end + '>')


class Client:
    def __init__(self, port, db='db', user='u', password=None, params=(), name='?', timeout=5.0,
                 connect=True, tls=False, host='127.0.0.1'):
        self.port = port
        self.db = db
        self.user = user
        self.password = password
        self.params = list(params)
        self.name = name
        self.timeout = timeout
        self.sock = None
        self.startup = None
        self.serial = 0
        self.key = None
        self.tls = tls
        self.host = host
        self.local_port = None
        self.auth_ok = False
        self.server_params = {}
        self.dead = False
        self.send_error = None
        if connect:
            self.connect()

    # ---- connection
    def open_socket(self):
        self.sock = socket.create_connection((self.host, self.port), timeout=self.timeout)
        self.sock.setsockopt(socket.IPPROTO_TCP, socket.TCP_NODELAY, 1)
        self.local_port = self.sock.getsockname()[1]
        if self.tls:
            self.sock.sendall(W.ssl_request())
            ans = self.sock.recv(1)
            if ans == b'S':
                ctx = ssl.SSLContext(ssl.PROTOCOL_TLS_CLIENT)
                ctx.check_hostname = False
                ctx.verify_mode = ssl.CERT_NONE
                self.sock = ctx.wrap_socket(self.sock)
            else:
                self.tls = False

    def connect(self):
        self.open_socket()
        p = [('user', self.user), ('database', self.db)] + self.params
        self.sock.sendall(W.startup_packet(p))
        self.startup = self.read_startup_reply()
        return self.startup

    def read_startup_reply(self):
        msgs = []
        while True:
            try:
                t, b = W.read_msg(self.sock)
            except (EOFError, ConnectionError, OSError) as e:
                if isinstance(e, socket.timeout):
                    return Reply(msgs, 'TIMEOUT')
                return Reply(msgs, 'EOF')
            t = t.decode(errors='replace')
            msgs.append((t, b))
            if t == 'R':
                code = struct.unpack('!i', b[:4])[0]
                if code == 5:
                    salt = b[4:8]
                    if self.password is None:
                        return Reply(msgs, 'NEEDPASS')
                    self.sock.sendall(W.Password(md5_password(self.user, self.password, salt)))
                elif code == 0:
                    self.auth_ok = True
            elif t == 'K':
                self.key = struct.unpack('!ii', b)
            elif t == 'S':
                k, v = b.split(b'\0')[:2]
                self.server_params[k.decode()] = v.decode(errors='replace')
            elif t == 'Z':
                return Reply(msgs, 'Z')

    # ---- io
    def send(self, data):
        """Send bytes; a connection the peer has already closed is remembered in `dead`, not raised."""
        try:
            self.sock.sendall(data)
        except (BrokenPipeError, ConnectionResetError, ssl.SSLError) as e:
            self.dead = True
            self.send_error = repr(e)

    def read_one(self, timeout=None):
        self.sock.settimeout(timeout if timeout is not None else self.timeout)
        t, b = W.read_msg(self.sock)
        return t.decode(errors='replace'), b

    def read_reply(self, timeout=None, stop=('Z',)):
        msgs = []
        deadline = time.time() + (timeout if timeout is not None else self.timeout)
        while True:
            left = deadline - time.time()
            if left <= 0:
                return Reply(msgs, 'TIMEOUT')
            try:
                t, b = self.read_one(left)
            except socket.timeout:
                return Reply(msgs, 'TIMEOUT')
            except (EOFError, ConnectionError, OSError, ValueError):
                return Reply(msgs, 'EOF')
            msgs.append((t, b))
            if t == 'S' and b.count(b'\0') >= 2:
                k, v = b.split(b'\0')[:2]
                self.server_params[k.decode(errors='replace')] = v.decode(errors='replace')
            if t in stop:
                return Reply(msgs, t if t != 'Z' else 'Z')

    def tag(self):
        self.serial += 1
        return '/*c=%s;n=%d*/' % (self.name, self.serial)

    def query(self, sql, timeout=None, tagged=True):
        if tagged:
            sql = sql + ' ' + self.tag()
        self.send(W.Q(sql))
        return self.read_reply(timeout)

    def q(self, sql, timeout=None):
        """Multi-statement aware: tag every statement."""
        parts = [p for p in sql.split(';')]
        sql = ';'.join((p + ' ' + self.tag()) if p.strip() else p for p in parts)
        self.send(W.Q(sql))
        return self.read_reply(timeout)

    def extended(self, msgs, timeout=None):
        self.send(b''.join(msgs))
        return self.read_reply(timeout)

    def terminate(self):
        try:
            self.sock.sendall(W.Terminate())
        except OSError:
            pass
        self.close()

    def close(self):
        try:
            self.sock.close()
        except OSError:
            pass

    def abort(self):
        """Close with RST."""
        try:
            self.sock.setsockopt(socket.SOL_SOCKET, socket.SO_LINGER, struct.pack('ii', 1, 0))
            self.sock.close()
        except OSError:
            pass

    def eof_within(self, timeout):
        """True if the peer closes within timeout."""
        try:
            self.sock.settimeout(timeout)
            while True:
                d = self.sock.recv(65536)
                if not d:
                    return True
        except socket.timeout:
            return False
        except (ConnectionError, OSError):
            return True


def md5_password(user, password, salt):
    inner = hashlib.md5((password + user).encode()).hexdigest()
    return 'md5' + hashlib.md5(inner.encode() + salt).hexdigest()


def send_cancel(port, pid, key, host='127.0.0.1', wait=True):
    s = socket.create_connection((host, port), timeout=3)
    s.sendall(W.cancel_packet(pid, key))
    if not wait:
        return s      # the caller closes it
    try:
        s.settimeout(3)
        s.recv(16)
    except (socket.timeout, OSError):
        pass
    s.close()
