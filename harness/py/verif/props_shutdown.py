"""Check C17: graceful shutdown (SIGINT / admin SHUTDOWN / SIGTERM)."""
import json
import os
import random
import signal
import time

from . import core, tlc
from . import pgwire as W
from .client import Client
from .world import World, simple_pool

SHUTDOWN_TIMEOUT_MS = 2500
ADMIN_MSG = 'terminating connection due to administrator command'


def run_scenario(item):
    """item: {'id', 'steps': [{'op','c'}], 'via': 'signal'|'admin', 'tail': 'finish'|'linger', 'seed'}"""
    rng = random.Random(item['seed'])
    obs = []
    out = {'id': item['id'], 'obs': obs}

    def note(kind, **kw):
        obs.append({'kind': kind, 'detail': kw})

    with World('sd') as w:
        be = w.backend('p0')
        w.start(general={'shutdown_timeout': SHUTDOWN_TIMEOUT_MS},
                pools={'db': simple_pool([['127.0.0.1', be.port, 'primary']], pool_size=4)})
        clients = {}
        state = {}       # name -> 'idle' | 'intx' | 'gone'
        is_admin = {}
        t_sig = None
        sig_kind = None
        at_sig = {}
        for st in item['steps']:
            op, n = st['op'], st['c']
            if op == 'connect':
                adm = n == 'ADM'
                is_admin[n] = adm
                try:
                    c = Client(w.port, db='pgcat' if adm else 'db', user='admin' if adm else 'u', name=n, timeout=4.0)
                except OSError as e:
                    if t_sig and sig_kind == 'sigterm':
                        continue
                    note('connect_failed', client=n, err=repr(e))
                    continue
                clients[n] = c
                ok = c.startup.end == 'Z'
                if t_sig is not None and sig_kind == 'sigint':
                    if adm:
                        if not ok:
                            note('admin_refused_during_shutdown', got=c.startup.brief())
                    else:
                        if ok:
                            note('login_accepted_after_shutdown', client=n)
                        elif not any(ADMIN_MSG in (e.get('M') or '') for e in c.startup.errors):
                            note('refusal_without_admin_error', client=n, got=c.startup.brief())
                    state[n] = 'idle' if ok else 'gone'
                else:
                    state[n] = 'idle' if ok else 'gone'
                    if not ok:
                        note('connect_failed', client=n, got=c.startup.brief())
            elif op == 'begin':
                c = clients.get(n)
                if c is None or state.get(n) != 'idle':
                    continue
                if is_admin[n]:
                    rep = c.query('SHOW VERSION', tagged=False)
                    continue
                rep = c.query('BEGIN')
                if rep.end == 'Z' and rep.status == 'T':
                    state[n] = 'intx'
                    r2 = c.query('SELECT 1')
                    e = r2.echoes()
                    if not (r2.end == 'Z' and e and e[0].get('c') == n):
                        note('statement_in_transaction_failed', client=n, got=r2.brief())
                elif t_sig is not None:
                    # an idle client was (or is being) kicked: fine
                    state[n] = 'gone'
                else:
                    note('begin_failed', client=n, got=rep.brief())
            elif op == 'end':
                c = clients.get(n)
                if c is None or state.get(n) != 'intx':
                    continue
                rep = c.query('INSERT INTO t VALUES (1)')
                rep2 = c.query('COMMIT')
                if not (rep.end == 'Z' and rep.tags == ['INSERT 0 1'] and rep2.end == 'Z' and rep2.tags == ['COMMIT'] and rep2.status == 'I'):
                    note('transaction_in_progress_broken', client=n, got=rep.brief() + ' / ' + rep2.brief(),
                         after_signal=t_sig is not None)
                state[n] = 'idle'
            elif op == 'cancel':
                # a CancelRequest with a key nobody holds: the pooler must contact no server, and must count right
                from .client import send_cancel
                try:
                    send_cancel(w.port, rng.randrange(1, 2 ** 31 - 1), rng.randrange(1, 2 ** 31 - 1))
                except OSError:
                    pass
                time.sleep(0.05)
            elif op == 'leave':
                c = clients.get(n)
                if c is not None and state.get(n) == 'idle':
                    c.terminate()
                    state[n] = 'gone'
            elif op in ('sigint', 'sigterm'):
                at_sig = dict(state)
                sig_kind = op
                if op == 'sigterm':
                    w.signal(signal.SIGTERM)
                elif item.get('via') == 'admin' and t_sig is None:
                    rep = w.admin_cmd('SHUTDOWN')
                    if rep.end != 'Z':
                        note('shutdown_command_no_reply', got=rep.brief())
                else:
                    w.signal(signal.SIGINT)
                if t_sig is None:
                    t_sig = time.time()
                time.sleep(0.15)
                if op == 'sigint':
                    # idle transaction-mode clients must be told and disconnected
                    for m, s in list(state.items()):
                        if s == 'idle' and not is_admin[m]:
                            rep = clients[m].read_reply(timeout=2.0, stop=())
                            if rep.end != 'EOF' or not any(ADMIN_MSG in (e.get('M') or '') for e in rep.errors):
                                note('idle_client_not_disconnected', client=m, got=rep.brief())
                            state[m] = 'gone'
        # ---- tail
        if t_sig is None:
            out['alive'] = w.alive()
            out['trace'] = build_trace(w.hooks(), item['id'], obs)
            return out
        if sig_kind == 'sigterm':
            # "exits immediately": well before anything else (shutdown_timeout, a client leaving) could end the process
            try:
                w.proc.wait(timeout=1.2)
            except Exception:
                note('sigterm_no_exit')
                try:
                    w.proc.wait(timeout=4.0)
                except Exception:
                    pass
            out['trace'] = build_trace(w.hooks(), item['id'], obs)
            return out
        lingering = [m for m, s in state.items() if s == 'intx']
        if item.get('tail') == 'finish':
            for m in lingering:
                c = clients[m]
                rep = c.query('SELECT 2')
                rep2 = c.query('COMMIT')
                if time.time() - t_sig < SHUTDOWN_TIMEOUT_MS / 1000.0 - 0.4:
                    if not (rep.end == 'Z' and rep2.end == 'Z' and rep2.tags == ['COMMIT']):
                        note('transaction_in_progress_broken', client=m, got=rep.brief() + ' / ' + rep2.brief(), after_signal=True)
                    # back between transactions: now it is disconnected
                    r3 = c.read_reply(timeout=2.0, stop=())
                    if r3.end != 'EOF':
                        note('client_not_disconnected_after_transaction', client=m, got=r3.brief())
                state[m] = 'gone'
            for m, c in clients.items():
                if is_admin.get(m) and state.get(m) != 'gone':
                    pass   # admin sessions do not hold up the exit
            # everyone has left: exit promptly, well before the timeout
            try:
                w.proc.wait(timeout=max(0.1, min(2.0, t_sig + SHUTDOWN_TIMEOUT_MS / 1000.0 - 0.3 - time.time())))
            except Exception:
                if time.time() < t_sig + SHUTDOWN_TIMEOUT_MS / 1000.0 - 0.3:
                    pass
                # give it until the timeout: then it must be gone anyway
                try:
                    w.proc.wait(timeout=4.0)
                    note('exit_only_at_timeout_although_drained', waited=round(time.time() - t_sig, 2))
                except Exception:
                    note('no_exit_after_shutdown')
        else:
            # clients stay inside their transaction: the process must live until the timeout, then exit
            if lingering:
                try:
                    w.proc.wait(timeout=max(0.05, t_sig + SHUTDOWN_TIMEOUT_MS / 1000.0 - 0.5 - time.time()))
                    note('exit_before_timeout_with_transaction_in_progress', after=round(time.time() - t_sig, 2), clients=lingering)
                except Exception:
                    pass
            try:
                w.proc.wait(timeout=5.0)
            except Exception:
                note('no_exit_after_shutdown')
        time.sleep(0.05)
        out['trace'] = build_trace(w.hooks(), item['id'], obs)
    return out


def build_trace(hooks, sc, obs):
    pid = {}

    def P(x):
        if x not in pid:
            pid[x] = len(pid) + 1
        return pid[x]
    recs = [{'ev': 'reset', 'sc': sc}]
    admins = set()
    for h in hooks:
        ev = h['ev']
        if ev == 'signal':
            recs.append({'ev': 'signal', 'kind': h['kind']})
        elif ev == 'accept':
            recs.append({'ev': 'accept', 'cid': h['cid'], 'admin_only': h['admin_only']})
        elif ev == 'startup_ok':
            if h['admin']:
                admins.add(h['pid'])
            recs.append({'ev': 'startup_ok', 'c': P(h['pid']), 'admin': h['admin'], 'admin_only': h['admin_only']})
        elif ev == 'handle_done':
            recs.append({'ev': 'handle_done', 'c': P(h['pid'])})
        elif ev == 'checkout_ok':
            recs.append({'ev': 'checkout_ok', 'c': P(h['pid'])})
        elif ev == 'release':
            recs.append({'ev': 'release', 'c': P(h['pid'])})
        elif ev == 'shutdown_seen':
            if h.get('admin'):
                continue
            recs.append({'ev': 'shutdown_seen', 'c': P(h['pid'])})
        elif ev == 'drain':
            recs.append({'ev': 'drain', 'delta': h['delta'], 'total': h['total']})
        elif ev == 'drained':
            recs.append({'ev': 'drained', 'total': h['total']})
        elif ev == 'shutdown_timeout':
            recs.append({'ev': 'shutdown_timeout'})
        elif ev == 'exit':
            recs.append({'ev': 'exit', 'why': h['why']})
    for o in obs:
        recs.append({'ev': 'obs', 'kind': o['kind'], 'detail': json.dumps(o['detail'])[:300]})
    return {'recs': recs, 'nc': max(1, len(pid))}


def check_c17(prop, tier, seed):
    v = core.Verdict(prop, tier, seed)
    rng = random.Random(seed)
    v.assumptions = [
        'clients still authenticating when the signal arrives, and session-mode clients, are outside the statement (dontcare)',
        'timing observations use slack: exit "promptly" = before shutdown_timeout - 0.3 s; "at the timeout" = within +5 s',
        'no drain messages are in flight when the signal is sent (lock-step populations)',
    ]
    core.build_pgcat()
    res = tlc.run_tlc('Shutdown', 'MC_Shutdown.cfg', workers=8, coverage=True)
    v.add_mc('mc:design', res)
    if res.rc != 0:
        v.tool_error('Shutdown design rc=%d %s' % (res.rc, res.errors()[:2]))
    for d in ('no_admin_only_gate', 'exit_on_any_drain', 'kick_in_tx', 'cancel_not_counted'):
        r2 = tlc.run_tlc('Shutdown', 'MC_Shutdown_dev_%s.cfg' % d, workers=8)
        v.add_mc('mc:dev:' + d, r2)
        if not r2.invariant_violated and not r2.property_violated:
            v.tool_error('Shutdown deviation %s not detected by the model' % d)
        else:
            v.extra.setdefault('model_negative_control', []).append('%s violates %s' % (d, r2.invariant_violated))
    res = tlc.run_tlc('Gen_Shutdown', 'Gen_Shutdown.cfg', workers=8)
    if res.rc != 0:
        v.tool_error('Gen_Shutdown rc=%d' % res.rc)
        return v.finish()
    v.add_mc('gen', res)
    seen = set()
    scen = []
    for t, o in res.prints:
        if t == 'SCENARIO':
            k = json.dumps(o)
            if k not in seen:
                seen.add(k)
                scen.append(o)
    v.extra['histories_generated'] = len(scen)
    withsig = [s for s in scen if any(x['op'] in ('sigint', 'sigterm') for x in s)]

    def feat(s):
        f = []
        state = {}
        for x in s:
            if x['op'] in ('sigint', 'sigterm'):
                f.append(x['op'] + ':' + ','.join(sorted('%s=%s' % kv for kv in state.items())))
            elif x['op'] == 'connect':
                state[x['c']] = 'idle'
                if any(y.startswith('sig') for y in f):
                    f.append('connect_after:' + ('adm' if x['c'] == 'ADM' else 'cl'))
            elif x['op'] == 'begin':
                state[x['c']] = 'intx'
            elif x['op'] == 'end':
                state[x['c']] = 'idle'
            elif x['op'] == 'leave':
                state.pop(x['c'], None)
            elif x['op'] == 'cancel' and not any(y.startswith('sig') for y in f):
                f.append('cancel_before')
        return tuple(f)
    byf = {}
    for s in withsig:
        byf.setdefault(feat(s), []).append(s)
    keys = sorted(byf)
    rng.shuffle(keys)
    n = {'quick': 110, 'thorough': 1500}[tier]

    def term_during_drain(s2):
        # SIGTERM while a graceful shutdown is waiting for a client that is inside a transaction
        state, got_int = {}, False
        for x in s2:
            if x['op'] == 'connect':
                state[x['c']] = 'idle'
            elif x['op'] == 'begin':
                state[x['c']] = 'intx'
            elif x['op'] in ('end', 'leave'):
                state[x['c']] = 'idle' if x['op'] == 'end' else 'gone'
            elif x['op'] == 'sigint':
                got_int = True
            elif x['op'] == 'sigterm':
                return got_int and any(v2 == 'intx' and c2 != 'ADM' for c2, v2 in state.items())
        return False
    quota = [s2 for s2 in withsig if term_during_drain(s2)]
    rng.shuffle(quota)
    chosen = quota[:max(8, n // 12)]
    i = 0
    while len(chosen) < n:
        progressed = False
        for k in keys:
            if i < len(byf[k]):
                chosen.append(byf[k][i])
                progressed = True
                if len(chosen) >= n:
                    break
        if not progressed:
            break
        i += 1
    items = [{'id': j + 1, 'steps': s, 'via': 'admin' if j % 4 == 3 else 'signal', 'tail': 'linger' if j % 3 == 2 else 'finish',
              'seed': seed * 13 + j} for j, s in enumerate(chosen)]
    results = core.run_parallel(run_scenario, items, workers=14)
    recs = []
    nc = 1
    ok = []
    for it, r in zip(items, results):
        if 'error' in r:
            v.tool_error('shutdown scenario crashed: ' + r['error'][-500:])
            continue
        ok.append((it, r))
        recs += r['trace']['recs']
        nc = max(nc, r['trace']['nc'])
        v.nontrivial_case(json.dumps(feat(it['steps'])) + it['via'] + it['tail'])
    v.cov['evaluations'] = len(ok)
    os.environ['NC'] = str(nc)
    res, info = tlc.validate_trace('Trace_Shutdown', 'Trace_Shutdown.cfg', recs, timeout=900)
    v.add_mc('trace', res)
    if info['matched'] != info['total']:
        v.tool_error('Trace_Shutdown consumed %s of %s: %s' % (info['matched'], info['total'], res.errors()[:2] or res.out[-400:]))
    else:
        v.cov['traces_validated_against_impl'] = len(ok)
    byid = {it['id']: it for it, r in ok}
    for vi in info['viol']:
        it = byid[vi['sc']]
        v.violation('%s/%s/%s' % (vi['kind'], it['via'], it['tail']), vi['detail'], replay=it)
    # negative control: pretend a non-admin login succeeded in admin-only mode
    done = False
    for it, r in ok:
        t = r['trace']['recs']
        idx = [i for i, x in enumerate(t) if x['ev'] == 'signal' and x['kind'] == 'SIGINT']
        if idx:
            seg = [dict(x) for x in t[:idx[0] + 1]] + [{'ev': 'accept', 'cid': 1, 'admin_only': True},
                                                      {'ev': 'startup_ok', 'c': 1, 'admin': False, 'admin_only': True}]
            os.environ['NC'] = str(max(1, r['trace']['nc']))
            res2, info2 = tlc.validate_trace('Trace_Shutdown', 'Trace_Shutdown.cfg', seg)
            if any(x['kind'] == 'login_after_shutdown' for x in info2['viol']):
                v.extra['negative_control'] = 'injected a non-admin login after SIGINT: rejected'
            else:
                v.tool_error('negative control failed')
            done = True
            break
    if not done:
        v.tool_error('negative control: no SIGINT in any trace')
    for it, r in ok[:2]:
        v.add_sample({'steps': [(x['op'], x['c']) for x in it['steps']], 'via': it['via'], 'tail': it['tail'],
                      'trace_tail': r['trace']['recs'][-8:]})
    v.cov['rule'] = ('histories = all orders of connect / begin / end / leave of 2 clients + 1 admin with SIGINT / SIGTERM placed '
                     'anywhere, length <= 6 (TLC, Gen_Shutdown); those containing a signal are stratified by the population at '
                     'signal time and replayed on the real binary with real signals (1/4 via admin SHUTDOWN), in-progress '
                     'transactions either finished or left open until shutdown_timeout; distinct = (population at signal, '
                     'arrivals after it, via, tail)')
    return v.finish()
