"""Check C16: PAUSE holds new transactions, RESUME releases every held client."""
import json
import os
import random
import time

from . import core, tlc
from . import pgwire as W
from .client import Client
from .world import World, simple_pool, render_config, default_general

DELAY_CONFIGS = [{}, {'wait_paused_between': 250}, {'wait_paused_after_read': 250}, {'resume_between': 250},
                 {'wait_paused_between': 120, 'resume_between': 120}]
POOL_ID = {'db1': 1, 'db2': 2}


def run_scenario(item):
    """item: {'id', 'steps': [{'op','c'}], 'delays': {...}, 'scope': 'global'|'pool', 'seed'}"""
    rng = random.Random(item['seed'])
    delays = item.get('delays', {})
    env = {}
    if delays:
        env['PGCAT_VERIF_DELAY'] = ','.join('%s=%d' % kv for kv in delays.items())
    out = {'id': item['id'], 'obs': [], 'delays': delays}
    with World('pz', env=env) as w:
        b1 = w.backend('b1')
        b2 = w.backend('b2')
        pools = {'db1': simple_pool([['127.0.0.1', b1.port, 'primary']], pool_size=3),
                 'db2': simple_pool([['127.0.0.1', b2.port, 'primary']], pool_size=3)}
        general = default_general(None)
        w.start(pools=pools)
        cfg_general = None
        clients = {}
        names = sorted({s['c'] for s in item['steps'] if s['c']})
        for n in names:
            clients[n] = Client(w.port, db='db1', name=n, timeout=6.0)
        if item.get('warm') == 'lone_sync':
            # what a client did before does not matter to the gate - e.g. a batch the pooler answered itself
            for n in names:
                clients[n].send(W.Sync())
                clients[n].read_reply(3.0)
        ctl = Client(w.port, db='db2', name='CTL', timeout=6.0)   # control client on the other pool
        admin = w.admin()
        pending = {}
        scope = item.get('scope', 'global')

        def admin_cmd(sql):
            admin.send(W.Q(sql))
            rep = admin.read_reply(8.0)
            if rep.end != 'Z':
                out['obs'].append({'kind': 'admin_no_reply', 'sql': sql, 'got': rep.brief()})
            return rep

        paused_now = False
        resumed_last = time.time()
        version = [3]
        for st in item['steps']:
            op = st['op']
            if op == 'arrive':
                c = clients[st['c']]
                if st['c'] in pending:
                    # the model lets a client arrive again only after its previous transaction finished
                    # (on the implementation it may still be held by a PAUSE that raced with it: then this
                    # arrival is not realisable and is skipped)
                    rep = c.read_reply(0.4)
                    if rep.end != 'Z':
                        if rep.msgs:
                            out['obs'].append({'kind': 'partial_reply', 'client': st['c'], 'got': rep.brief()})
                        continue
                    pending.pop(st['c'])
                hm = len(w.hooks())
                c.send(W.Q('SELECT 1 ' + c.tag()))
                pending[st['c']] = True
                # let it reach wait_paused (and sit inside a delay window if one is configured)
                w.wait_hook(lambda h: h['ev'] == 'pause_enter', timeout=2.0, since=0 if hm == 0 else w.hooks()[hm - 1]['seq'])
                time.sleep(0.04 if delays else 0.01)
            elif op == 'pause':
                admin_cmd('PAUSE' if scope == 'global' else 'PAUSE db1,u')
                paused_now = True
            elif op == 'resume':
                admin_cmd('RESUME' if scope == 'global' else 'RESUME db1,u')
                paused_now = False
                resumed_last = time.time()
            elif op == 'reload':
                # change db1's definition so that the pool is re-created
                version[0] += 1
                pools['db1']['users']['0']['pool_size'] = version[0]
                w.write_config(render_config(default_general(w.port), pools))
                admin_cmd('RELOAD')
            # the control client on db2 must never be held by a db1-only pause
            if scope == 'pool' and rng.random() < 0.5:
                rep = ctl.query('SELECT 2', timeout=4.0)
                if rep.end != 'Z':
                    out['obs'].append({'kind': 'other_pool_held', 'got': rep.brief()})
        if paused_now:
            admin_cmd('RESUME' if scope == 'global' else 'RESUME db1,u')
            resumed_last = time.time()
        # every pending client must now get its reply
        for n in list(pending):
            rep = clients[n].read_reply(timeout=5.0)
            if rep.end != 'Z':
                out['obs'].append({'kind': 'client_blocked_after_resume', 'client': n, 'got': rep.brief()})
        time.sleep(max(0.0, 0.3 - (time.time() - resumed_last)))
        hooks = w.hooks()
        out['trace'] = build_trace(hooks, item['id'])
        out['alive'] = w.alive()
        for c in list(clients.values()) + [ctl, admin]:
            c.close()
    return out


def build_trace(hooks, sc):
    pid = {}
    pool_of = {}

    def P(x):
        if x not in pid:
            pid[x] = len(pid) + 1
        return pid[x]
    recs = [{'ev': 'reset', 'sc': sc}]
    last_at = {}
    for h in hooks:
        ev = h['ev']
        if ev == 'startup_ok' and not h.get('admin'):
            pool_of[h['pid']] = POOL_ID.get(h['pool'], 3)
        elif ev == 'pause_enter' and h['pid'] in pool_of:
            recs.append({'ev': 'arrive', 'c': P(h['pid']), 'pool': pool_of[h['pid']]})
        elif ev == 'notified_created' and h['pid'] in pool_of:
            recs.append({'ev': 'created', 'c': P(h['pid'])})
        elif ev == 'flag_read' and h['pid'] in pool_of:
            recs.append({'ev': 'read', 'c': P(h['pid']), 'paused': h['paused']})
        elif ev == 'woken' and h['pid'] in pool_of:
            recs.append({'ev': 'woken', 'c': P(h['pid'])})
        elif ev == 'checkout_ok' and h['pid'] in pool_of:
            recs.append({'ev': 'checkout', 'c': P(h['pid'])})
        elif ev == 'msg' and h['pid'] in pool_of:
            # the first message of a transaction is recorded twice (read while idle, then taken up by the transaction loop);
            # every transaction of these histories is one autocommit statement, so a Query that the loop reads itself is a new
            # transaction that did not come through the gate
            if h.get('at') == 'tx' and h.get('code') == 'Q' and last_at.get(h['pid']) == 'tx':
                recs.append({'ev': 'inloop', 'c': P(h['pid'])})
            last_at[h['pid']] = h.get('at')
        elif ev == 'client_drop' and h['pid'] in pool_of and not h.get('cancel'):
            recs.append({'ev': 'gone', 'c': P(h['pid'])})
        elif ev in ('pause', 'resume_store', 'resume_notify'):
            recs.append({'ev': ev, 'pool': POOL_ID.get(h['pool'], 3)})
        elif ev == 'pool_created' and h.get('pool') in POOL_ID and any(r['ev'] != 'reset' for r in recs):
            recs.append({'ev': 'pool_created', 'pool': POOL_ID[h['pool']]})
    recs.append({'ev': 'end'})
    return {'recs': recs, 'nc': max(1, len(pid))}


def check_c16(prop, tier, seed):
    v = core.Verdict(prop, tier, seed)
    rng = random.Random(seed)
    v.assumptions = [
        "tokio's Notify is modelled as a generation counter (notified() captures it, notify_waiters() increments it)",
        'race windows on the implementation are widened with the named delay points of the verif feature; the interleavings '
        'actually hit are the ones recorded in the hook trace, not all of them',
        'a held client is declared stuck only after RESUME was answered and 5 s passed',
    ]
    core.build_pgcat()
    res = tlc.run_tlc('Pause', 'MC_Pause_design.cfg', workers=8, deadlock=False, coverage=True)
    v.add_mc('mc:design', res)
    if res.rc != 0:
        v.tool_error('Pause design: rc=%d %s' % (res.rc, res.errors()[:2]))
    for d in ('read_before_register', 'notify_before_store', 'recreated_pool_forgets_pause'):
        r2 = tlc.run_tlc('Pause', 'MC_Pause_dev_%s.cfg' % d, workers=8)
        v.add_mc('mc:dev:' + d, r2)
        if not r2.property_violated and not r2.invariant_violated:
            v.tool_error('Pause with deviation %s: expected a violation' % d)
        else:
            v.extra.setdefault('model_negative_control', []).append('%s: AllProceed / HeldWhilePaused violated' % d)
    # any number of PAUSE / RESUME / RELOAD / client steps: an invariant containing HeldWhilePaused is inductive for the
    # design (Apalache, symbolic; liveness stays with TLC); it is not when a re-created pool gets a flag of its own
    for name, cinit, init, length, expect in (('initial', 'ConstInit', 'Init', 0, 'ok'), ('step', 'ConstInit', 'IndInit', 1, 'ok'),
                                              ('negative_control_recreated_pool', 'ConstInitForgets', 'IndInit', 1, 'violated')):
        got = tlc.run_apalache('PauseApa', cinit, init, 'IndInv', length, timeout=900)
        v.extra.setdefault('apalache_inductive_invariant', []).append({'check': name, 'result': got})
        if got != expect:
            v.tool_error('Apalache %s: expected %s, got %s' % (name, expect, got))
    with open(os.path.join(tlc.SPEC, 'Gen_Pause.cfg'), 'w') as f:
        f.write('SPECIFICATION GSpec\nCONSTANTS\n  Clients = {"A", "B"}\n  MaxOps = 10\n  Dev = {}\n  Depth = 5\nINVARIANT Emit\n')
    res = tlc.run_tlc('Gen_Pause', 'Gen_Pause.cfg', workers=8)
    if res.rc != 0:
        v.tool_error('Gen_Pause rc=%d' % res.rc)
        return v.finish()
    v.add_mc('gen', res)
    seen = set()
    scen = []
    for t, o in res.prints:
        if t == 'SCENARIO':
            k = json.dumps(o)
            if k not in seen:
                seen.add(k)
                scen.append(o)
    v.extra['histories_generated'] = len(scen)
    useful = [s for s in scen if any(x['op'] == 'pause' for x in s) and any(x['op'] == 'arrive' for x in s)]
    rng.shuffle(useful)
    n = {'quick': 160, 'thorough': 2400}[tier]
    items = []
    for i in range(n):
        s = useful[i % len(useful)]
        items.append({'id': i + 1, 'steps': s, 'delays': DELAY_CONFIGS[i % len(DELAY_CONFIGS)],
                      'scope': 'pool' if i % 3 == 0 else 'global', 'seed': seed * 31 + i,
                      'warm': 'lone_sync' if i % 4 == 1 else None})
    results = core.run_parallel(run_scenario, items, workers=14)
    recs = []
    nc = 1
    ok = []
    for it, r in zip(items, results):
        if 'error' in r:
            v.tool_error('pause scenario crashed: ' + r['error'][-400:])
            continue
        ok.append((it, r))
        recs += r['trace']['recs']
        nc = max(nc, r['trace']['nc'])
        held = any(x['ev'] == 'read' and x['paused'] for x in r['trace']['recs'])
        if held:
            v.nontrivial_case(json.dumps([(x['op'], x['c']) for x in it['steps']]) + json.dumps(it['delays'], sort_keys=True) + it['scope'])
    v.cov['evaluations'] = len(ok)
    os.environ['NC'] = str(nc)
    res, info = tlc.validate_trace('Trace_Pause', 'Trace_Pause.cfg', recs, timeout=900)
    v.add_mc('trace', res)
    if info['matched'] != info['total']:
        v.tool_error('Trace_Pause consumed %s of %s: %s' % (info['matched'], info['total'], res.errors()[:2] or res.out[-400:]))
    else:
        v.cov['traces_validated_against_impl'] = len(ok)
    byid = {it['id']: (it, r) for it, r in ok}
    for vi in info['viol']:
        it, r = byid[vi['sc']]
        d = vi['detail']
        ops = [x['op'] for x in it['steps']]
        if vi['kind'] == 'held_after_resume':
            sig = 'held_after_resume/' + ('pool_recreated_while_paused' if d.get('recreated') else 'plain')
        else:
            sig = vi['kind']
        v.violation(sig, d, replay=it)
    for it, r in ok:
        for o in r['obs']:
            recreated = 'reload' in [x['op'] for x in it['steps']]
            sig = o['kind'] + ('/pool_recreated_while_paused' if recreated and o['kind'] == 'client_blocked_after_resume' else '')
            v.violation(sig, o, replay=it)
        if not r.get('alive', True):
            v.violation('pgcat_died', {}, replay=it)
    # negative control: drop the `woken` events of one held client
    done = False
    for it, r in ok:
        t = r['trace']['recs']
        if any(x['ev'] == 'woken' for x in t):
            seg = [dict(x) for x in t if x['ev'] != 'woken']
            # without `woken`, the checkout of a client that read TRUE must be flagged
            os.environ['NC'] = str(r['trace']['nc'])
            res2, info2 = tlc.validate_trace('Trace_Pause', 'Trace_Pause.cfg', seg)
            if any(x['kind'] in ('checkout_while_paused', 'held_after_resume') for x in info2['viol']):
                v.extra['negative_control'] = 'removed the woken events of a held client: rejected'
            else:
                v.tool_error('negative control failed')
            done = True
            break
    if not done:
        v.tool_error('negative control: no client was ever held (vacuous)')
    for it, r in ok[:2]:
        v.add_sample({'steps': [(x['op'], x['c']) for x in it['steps']], 'delays': it['delays'], 'scope': it['scope'],
                      'trace_head': r['trace']['recs'][:10]})
    v.cov['rule'] = ('histories = all orders of client arrivals and admin PAUSE/RESUME/RELOAD of length 5 for 2 clients '
                     '(TLC, Gen_Pause), each replayed with one of 5 delay-point configurations and global or per-pool scope; '
                     'non-trivial = at least one client actually read the flag as set; distinct = (history, delays, scope)')
    return v.finish()
