"""Check C11: malformed or hostile client bytes hurt only the sender."""
import json
import os
import random
import socket
import struct
import time

from . import core, tlc
from . import pgwire as W
from .client import Client, md5_password
from .world import World, simple_pool


def frame(t, body, length=None):
    ln = len(body) + 4 if length is None else length
    return t + struct.pack('!i', ln) + body


def malformed(rng, mal):
    """Bytes for a malformation class sent on an established connection."""
    t = rng.choice([b'Q', b'P', b'B', b'D', b'E', b'C', b'S'])
    if mal in ('query_deeply_nested', 'parse_deeply_nested'):
        depth = rng.choice([120, 600, 3000])
        sql = 'SELECT ' + '(' * depth + '1' + ')' * depth
        if mal == 'query_deeply_nested':
            return W.Q(sql)
        return W.Parse('', sql) + W.Bind('', '') + W.Execute() + W.Sync()
    if mal == 'len_zero':
        return frame(t, b'', 0)
    if mal == 'len_three':
        return frame(t, b'', 3)
    if mal == 'len_negative':
        return frame(t, b'abc', rng.choice([-1, -5, -2147483648]))
    if mal == 'len_huge':
        return frame(t, b'SELECT 1\0', 0x7fffffff)
    if mal == 'len_longer_than_content':
        return frame(b'Q', b'SELECT 1\0', 200)
    if mal == 'len_shorter_than_content':
        return frame(b'Q', b'SELECT 1 /*x*/\0', 8) + b'garbage'
    if mal == 'unknown_type':
        return frame(bytes([rng.choice([0x01, 0x7f, 0xff, ord('z'), ord('R'), ord('K')])]), b'abc\0')
    if mal == 'query_empty_body':
        return frame(b'Q', b'')
    if mal == 'query_no_terminator':
        return frame(b'Q', b'SELECT 1')
    if mal == 'parse_empty_body':
        return frame(b'P', b'') + W.Sync()
    if mal == 'parse_no_terminator':
        return frame(b'P', b'stmtname_without_nul') + W.Sync()
    if mal == 'parse_huge_param_count':
        return frame(b'P', b's1\0SELECT $1\0' + struct.pack('!h', 32767)) + W.Sync()
    if mal == 'bind_empty_body':
        return frame(b'B', b'') + W.Sync()
    if mal == 'bind_counts_inconsistent':
        return frame(b'B', b'\0\0' + struct.pack('!h', 30000) + b'\0\1') + W.Sync()
    if mal == 'bind_negative_counts':
        return frame(b'B', b'\0\0' + struct.pack('!hh', -1, -1) + struct.pack('!h', -3)) + W.Sync()
    if mal == 'describe_empty_body':
        return frame(b'D', b'') + W.Sync()
    if mal == 'describe_bad_target':
        return frame(b'D', b'Xname\0') + W.Sync()
    if mal == 'close_empty_body':
        return frame(b'C', b'') + W.Sync()
    if mal == 'execute_empty_body':
        return frame(b'E', b'') + W.Sync()
    if mal == 'statement_name_invalid_utf8':
        name = rng.choice([b'\xff\xfe', b'st\xc3', b'\x80abc'])
        return frame(b'P', name + b'\0SELECT 1\0\0\0') + frame(b'B', b'\0' + name + b'\0\0\0\0\0\0\0') + W.Execute() + W.Sync()
    if mal == 'bind_param_length_negative':
        return W.Parse('', 'SELECT $1') + frame(b'B', b'\0\0\0\0\0\1' + struct.pack('!i', -5) + b'\0\0') + W.Execute() + W.Sync()
    if mal == 'bind_param_length_huge':
        return W.Parse('', 'SELECT $1') + frame(b'B', b'\0\0\0\0\0\1' + struct.pack('!i', 0x7fffff00) + b'ab\0\0') + W.Execute() + W.Sync()
    if mal == 'stray_sync':
        return W.Sync()
    if mal == 'stray_copydata':
        return W.CopyData(b'1,2,3\n')
    if mal == 'stray_copydone':
        return W.CopyDone()
    if mal == 'stray_copyfail':
        return W.CopyFail('x')
    if mal == 'stray_execute':
        return W.Execute() + W.Sync()
    if mal == 'stray_bind':
        return W.Bind('', 'never_parsed') + W.Sync()
    if mal == 'stray_describe':
        return W.Describe('S', 'never_parsed') + W.Sync()
    if mal == 'stray_flush':
        return W.Flush()
    if mal == 'password_message_now':
        return W.Password('md5' + 'a' * 32)
    raise ValueError(mal)


def pre_startup_bytes(rng, mal, port):
    if mal == 'len_zero':
        return struct.pack('!i', 0)
    if mal == 'len_three':
        return struct.pack('!i', 3)
    if mal == 'len_negative':
        return struct.pack('!i', -1) + b'xxxx'
    if mal == 'len_huge':
        return struct.pack('!i', 0x7ffffff0) + b'x' * 32
    if mal == 'len_longer_than_content':
        return struct.pack('!ii', 100, 196608) + b'user\0u\0'
    if mal == 'unknown_code':
        return struct.pack('!ii', 8, 12345)
    if mal == 'startup_no_terminator':
        body = struct.pack('!i', 196608) + b'user\0u\0database\0db'
        return struct.pack('!i', len(body) + 4) + body
    if mal == 'startup_odd_pairs':
        body = struct.pack('!i', 196608) + b'user\0u\0database\0\0'
        return struct.pack('!i', len(body) + 4) + body
    if mal == 'cancel_random_key':
        return W.cancel_packet(rng.randrange(1, 2 ** 31 - 1), rng.randrange(1, 2 ** 31 - 1))
    if mal == 'ssl_then_garbage':
        return W.ssl_request() + b'\x16\x03\x01garbage-not-tls' * 3
    if mal == 'empty_then_close':
        return b''
    raise ValueError(mal)


def password_bytes(rng, mal):
    if mal == 'pw_len_zero':
        return b'p' + struct.pack('!i', 0)
    if mal == 'pw_len_negative':
        return b'p' + struct.pack('!i', -7) + b'abc'
    if mal == 'pw_len_huge':
        return b'p' + struct.pack('!i', 0x7fffffff) + b'abc'
    if mal == 'pw_wrong_type':
        return W.Q('SELECT 1')
    if mal == 'pw_truncated':
        return b'p' + struct.pack('!i', 40) + b'md5abc'
    raise ValueError(mal)


def canary(w, k, be_mark):
    """One canary statement; returns dict(ok, own, clean, why)."""
    t0 = time.time()
    mark = w.log.mark()
    rep = k.query('SELECT 1', timeout=5.0)
    dt = time.time() - t0
    e = rep.echoes()
    ok = rep.end == 'Z' and not rep.errors and bool(e)
    own = bool(e) and e[0].get('c') == k.name and e[0].get('n') == k.serial
    clean = True
    why = ''
    for ev in w.log.snapshot()[mark:]:
        if ev['ev'] == 'exec' and ev.get('client') == k.name:
            b = ev['before']
            if b['tx'] != 'I' or b['copy'] or b['gucs'].keys() - {'application_name'} or b['sqlprep'] or \
                    [n for n in b['prepared'] if not n.startswith('PGCAT_')]:
                clean = False
                why = 'session not clean: %s' % json.dumps(b)[:120]
        if ev['ev'] == 'unexpected_during_copy' and ev.get('msgclient') == k.name:
            clean = False
            why = 'statement swallowed by an open COPY'
    if not ok:
        why = rep.brief()[:120]
    return {'ok': ok, 'own': own or not ok, 'clean': clean, 'why': why, 'secs': round(dt, 2)}


def rss_mb(pid):
    try:
        with open('/proc/%d/status' % pid) as f:
            for line in f:
                if line.startswith('VmRSS'):
                    return int(line.split()[1]) // 1024
    except OSError:
        pass
    return 0


def run_case(item):
    rng = random.Random(item['seed'])
    rec = {'sc': item['id'], 'steps': item['steps'], 'alive': True, 'during_ok': True, 'after_ok': True, 'after_own': True,
           'after_clean': True, 'capacity_ok': True, 'why': '', 'cache': item.get('cache', 0), 'rss_growth_mb': 0}
    with World('hx') as w:
        be = w.backend('p0')
        pool = simple_pool([['127.0.0.1', be.port, 'primary']], pool_size=1)
        pool['users']['1'] = {'username': 'um', 'password': 'secretm', 'pool_size': 1}
        if item.get('cache'):
            pool['prepared_statements_cache_size'] = item['cache']
        if item.get('parser'):
            pool['query_parser_enabled'] = True
            pool['query_parser_read_write_splitting'] = True
            pool['automatic_sharding_key'] = 't.id'
            pool['primary_reads_enabled'] = True
        w.start(general={'connect_timeout': 2500}, pools={'db': pool})
        k = Client(w.port, name='K', timeout=5.0)
        pre = canary(w, k, 0)
        for _ in range(3):
            if pre['ok']:
                break
            time.sleep(0.5)
            pre = canary(w, k, 0)
        if not pre['ok']:
            rec['why'] = 'canary failed before anything hostile: ' + pre['why']
            rec['precheck_failed'] = True
            return rec
        rss0 = rss_mb(w.proc.pid)
        for st in item['steps']:
            phase, mal = st['phase'], st['mal']
            holds = phase in ('in_transaction', 'in_copy')
            h = None
            if phase == 'queued':
                # the canary holds the only server connection; the sender's request is queued behind it; the sender's socket
                # is reset; the canary finishes.  Afterwards the canary must be served as before, also for the very
                # statement text the sender had asked to prepare.
                text_x = 'SELECT 4242 + %d' % item['id']
                try:
                    h = Client(w.port, name='H', timeout=3.0)
                    if mal == 'reset_while_batch_with_local_reply_queued':
                        h.extended([W.Parse('old', 'SELECT 7'), W.Sync()], timeout=3.0)
                    k.query('BEGIN')
                    if mal == 'reset_while_query_queued':
                        h.send(W.Q('SELECT 1 ' + h.tag()))
                    elif mal == 'reset_while_batch_queued':
                        h.send(W.Parse('hq', text_x) + W.Bind('', 'hq') + W.Execute() + W.Sync())
                    else:
                        h.send(W.Parse('hq', text_x) + W.Close('S', 'old') + W.Sync())
                    time.sleep(0.15)
                    h.abort()
                    time.sleep(0.1)
                    k.query('COMMIT')
                    time.sleep(0.3)
                except OSError:
                    pass
                d = canary(w, k, 0)
                if d['ok']:
                    rep = k.extended([W.Parse('kq%d' % k.serial, text_x), W.Bind('', 'kq%d' % k.serial), W.Execute(), W.Sync()], timeout=5.0)
                    if rep.end != 'Z' or rep.errors:
                        d = dict(d, ok=False, why='extended request for the text the sender had queued: ' + rep.brief()[:100])
                if not d['ok']:
                    rec['after_ok'] = False
                    rec['why'] += ' after[%s/%s]: %s (%.1fs)' % (phase, mal, d['why'], d['secs'])
                    k.close()
                    try:
                        k = Client(w.port, name='K', timeout=5.0)
                    except OSError:
                        break
                if not d['own']:
                    rec['after_own'] = False
                    rec['why'] += ' foreign result after[%s/%s]' % (phase, mal)
                if not d['clean']:
                    rec['after_clean'] = False
                    rec['why'] += ' after[%s/%s]: %s' % (phase, mal, d['why'])
                if not w.alive():
                    break
                continue
            try:
                if phase == 'pre_startup':
                    s = socket.create_connection(('127.0.0.1', w.port), timeout=3)
                    data = pre_startup_bytes(rng, mal, w.port)
                    if data:
                        s.sendall(data)
                    sock = s
                elif phase == 'awaiting_password':
                    s = socket.create_connection(('127.0.0.1', w.port), timeout=3)
                    s.sendall(W.startup_packet([('user', 'um'), ('database', 'db')]))
                    s.settimeout(2.0)
                    try:
                        W.read_msg(s)
                    except Exception:
                        pass
                    s.sendall(password_bytes(rng, mal))
                    sock = s
                else:
                    if phase == 'admin_idle':
                        h = Client(w.port, db='pgcat', user='admin', name='H', timeout=3.0)
                    else:
                        h = Client(w.port, name='H', timeout=3.0)
                    if phase == 'in_batch':
                        h.send(W.Parse('hs', 'SELECT 1 ' + h.tag()))
                    elif phase == 'in_transaction':
                        h.query('BEGIN')
                        h.query(rng.choice(['SELECT 1', 'SET statement_timeout TO 99', 'PREPARE hp AS SELECT 1']))
                    elif phase == 'in_copy':
                        h.send(W.Q('COPY t FROM STDIN ' + h.tag()))
                        h.read_reply(timeout=2.0, stop=('G', 'Z'))
                    h.send(malformed(rng, mal))
                    sock = h.sock
            except OSError as e:
                sock = None
            time.sleep(0.15)
            # what the pooler's memory does in answer to these few bytes (the sender is still connected)
            grown = rss_mb(w.proc.pid) - rss0
            if grown > rec.get('rss_growth_mb', 0):
                rec['rss_growth_mb'] = grown
            if not holds:
                d = canary(w, k, 0)
                # a connected client may hold the only server connection by legitimate means too (BEGIN and wait), so a
                # canary that is merely refused or kept waiting here is not evidence; a wrong or unclean answer is
                if d['ok'] and (not d['own'] or not d['clean']):
                    rec['during_ok'] = False
                    rec['why'] += ' during[%s/%s]: %s' % (phase, mal, d['why'] or ('own=%s clean=%s' % (d['own'], d['clean'])))
            if not holds and not d['ok']:
                k.close()
                k = Client(w.port, name='K', timeout=5.0)
            # the sender leaves
            try:
                if sock is not None:
                    sock.close()
            except OSError:
                pass
            time.sleep(0.1)
            d = canary(w, k, 0)
            if not d['ok']:
                rec['after_ok'] = False
                rec['why'] += ' after[%s/%s]: %s (%.1fs)' % (phase, mal, d['why'], d['secs'])
                # the canary connection may be unusable now; use a fresh one for the rest
                k.close()
                try:
                    k = Client(w.port, name='K', timeout=5.0)
                except OSError:
                    break
            if not d['own']:
                rec['after_own'] = False
                rec['why'] += ' foreign result after[%s/%s]' % (phase, mal)
            if not d['clean']:
                rec['after_clean'] = False
                rec['why'] += ' after[%s/%s]: %s' % (phase, mal, d['why'])
            if not w.alive():
                break
        rec['alive'] = w.alive()
        if rec['alive']:
            # full capacity: pool_size simultaneous transactions
            z = Client(w.port, name='Z', timeout=5.0)
            r = z.query('BEGIN')
            r2 = z.query('SELECT 1') if r.end == 'Z' else r
            rec['capacity_ok'] = r2.end == 'Z' and not r2.errors
            if not rec['capacity_ok']:
                rec['why'] += ' capacity: ' + r2.brief()[:100]
            z.close()
        else:
            rec['why'] += ' pgcat exited: ' + w.read_log()[-300:].replace('\x1b', '')
        k.close()
    return rec


def check_c11(prop, tier, seed):
    v = core.Verdict(prop, tier, seed)
    rng = random.Random(seed)
    v.assumptions = [
        'malformations are generated by class (spec/Hostile.tla) with concrete bytes per seed: model-based generation, not a '
        'proof over all byte strings',
        'the canary shares a pool_size = 1 pool with the hostile client; it is declared blocked after 5 s (connect_timeout 2.5 s)',
    ]
    core.build_pgcat()
    res = tlc.run_tlc('Hostile', 'Hostile.cfg', workers=1)
    if res.rc != 0:
        v.tool_error('Hostile rc=%d %s' % (res.rc, res.errors()[:2]))
        return v.finish()
    v.add_mc('mc+gen:Hostile', res)
    seen = set()
    cases = []
    for t, o in res.prints:
        if t == 'CASE':
            k = (o['phase'], o['mal'])
            if k not in seen:
                seen.add(k)
                cases.append(o)
    v.extra['cases'] = len(cases)
    items = []
    idx = 0
    reps = {'quick': 1, 'thorough': 6}[tier]
    for rep in range(reps):
        for cs in cases:
            idx += 1
            items.append({'id': idx, 'steps': [cs], 'seed': seed * 11 + idx, 'cache': [0, 8][idx % 2], 'parser': idx % 3 == 0})
            if cs['phase'] == 'queued':
                items[-1]['cache'] = 8
            if 'deeply_nested' in cs['mal']:
                items[-1]['parser'] = True
            if any(x in cs['mal'] for x in ('parse', 'bind', 'describe', 'close', 'execute', 'statement_name')):
                # decoders of the extended protocol are only used with statement caching on: run these both ways
                idx += 1
                items.append({'id': idx, 'steps': [cs], 'seed': seed * 11 + idx, 'cache': [8, 0][idx % 2], 'parser': idx % 2 == 0})
    npairs = {'quick': 120, 'thorough': 3000}[tier]
    for j in range(npairs):
        idx += 1
        a, b = rng.choice(cases), rng.choice(cases)
        items.append({'id': idx, 'steps': [a, b], 'seed': seed * 11 + idx, 'parser': idx % 3 == 0,
                      'cache': 8 if 'queued' in (a['phase'], b['phase']) else [0, 8][idx % 2]})
    results = core.run_parallel(run_case, items, workers=14)
    recs = []
    for it, r in zip(items, results):
        if 'error' in r:
            v.tool_error('hostile scenario crashed: ' + r['error'][-400:])
            continue
        if r.get('precheck_failed'):
            v.tool_error('canary precheck failed: ' + r['why'])
            continue
        recs.append(r)
        v.nontrivial_case('+'.join('%s/%s' % (s['phase'], s['mal']) for s in r['steps']))
    v.cov['evaluations'] = len(recs)
    trace = [{'sc': r['sc'], 'steps': r['steps'], 'alive': r['alive'], 'during_ok': r['during_ok'], 'after_ok': r['after_ok'],
              'after_own': r['after_own'], 'after_clean': r['after_clean'], 'capacity_ok': r['capacity_ok'], 'why': r['why'][:300],
              'rss_growth_mb': r.get('rss_growth_mb', 0)}
             for r in recs]
    res, info = tlc.validate_trace('Trace_Hostile', 'Trace_Hostile.cfg', trace, timeout=900)
    v.add_mc('trace', res)
    if info['matched'] != info['total']:
        v.tool_error('Trace_Hostile consumed %s of %s: %s' % (info['matched'], info['total'], res.errors()[:2] or res.out[-400:]))
    else:
        v.cov['traces_validated_against_impl'] = len(recs)
    byid = {r['sc']: r for r in recs}
    for vi in info['viol']:
        r = byid[vi['sc']]
        last = r['steps'][-1]
        first = r['steps'][0]
        # attribute to the first step whose phase/malformation shows up in the explanation
        culprit = first
        for s in r['steps']:
            if ('%s/%s' % (s['phase'], s['mal'])) in r['why']:
                culprit = s
                break
        v.violation('%s/phase=%s/mal=%s' % (vi['kind'], culprit['phase'], culprit['mal']), vi['detail'], replay=r)
    if trace:
        seg = [dict(trace[0])]
        seg[0]['alive'] = False
        res2, info2 = tlc.validate_trace('Trace_Hostile', 'Trace_Hostile.cfg', seg)
        if any(x['kind'] == 'pooler_terminated' for x in info2['viol']):
            v.extra['negative_control'] = 'marked one run as "pooler gone": rejected'
        else:
            v.tool_error('negative control failed')
    for r in recs[:3]:
        v.add_sample({'steps': r['steps'], 'outcome': {k: r[k] for k in ('alive', 'during_ok', 'after_ok', 'after_clean', 'capacity_ok')}})
    v.cov['rule'] = ('cases = every (protocol phase x malformation class) of spec/Hostile.tla (%d), each alone, plus %d random pairs; '
                     'statement caching on/off, query parser on for 1/3; distinct = case sequences' % (len(cases), npairs))
    return v.finish()
