"""Thin wrapper around TLC: model checking, behaviour generation, trace validation."""
import json
import os
import re
import shutil
import subprocess
import tempfile
import time

from .world import VERIF, WORK

SPEC = os.path.join(VERIF, 'spec')


class TLCResult:
    def __init__(self, rc, out, wall):
        self.rc = rc
        self.out = out
        self.wall = wall
        self.generated = 0
        self.distinct = 0
        self.depth = 0
        m = None
        for m in re.finditer(r'(\d+) states generated, (\d+) distinct states found', out):
            pass
        if m:
            self.generated = int(m.group(1))
            self.distinct = int(m.group(2))
        m = re.search(r'The depth of the complete state graph search is (\d+)', out)
        if m:
            self.depth = int(m.group(1))
        self.invariant_violated = re.findall(r'Error: Invariant (\S+) is violated', out)
        self.property_violated = bool(re.search(r'Error: Temporal propert(y|ies) .*violated', out))
        self.deadlock = 'Error: Deadlock reached' in out
        self.postcondition_failed = 'Error: The postcondition' in out or 'POSTCONDITION' in out and 'violated' in out
        self.tool_error = (rc not in (0, 12, 13, 11, 10) and not self.invariant_violated)
        self.ok = rc == 0
        self.prints = parse_prints(out)
        self.coverage = parse_coverage(out)

    def errors(self):
        return [l for l in self.out.splitlines() if l.startswith('Error:')]


def parse_prints(out):
    """PrintT(<<"TAG", "json">>) lines -> list of (tag, obj)."""
    res = []
    for line in out.splitlines():
        line = line.strip()
        if not line.startswith('<<"'):
            continue
        m = re.match(r'<<"([A-Z_]+)", (.*)>>$', line)
        if not m:
            continue
        tag, rest = m.group(1), m.group(2)
        rest = rest.strip()
        if rest.startswith('"'):
            # TLA+ string: unescape \" and \\
            s = rest[1:-1].replace('\\"', '"').replace('\\\\', '\\')
            try:
                res.append((tag, json.loads(s)))
            except ValueError:
                res.append((tag, s))
        else:
            res.append((tag, rest))
    return res


def parse_coverage(out):
    """Per-action counts from -coverage output: {action: (distinct, total)}."""
    cov = {}
    for m in re.finditer(r'<(\w+) line \d+, col \d+ to line \d+, col \d+ of module (\w+)>: (\d+):(\d+)', out):
        name = m.group(1)
        d, t = int(m.group(3)), int(m.group(4))
        if name in cov:
            cov[name] = (cov[name][0] + d, cov[name][1] + t)
        else:
            cov[name] = (d, t)
    return cov


def run_tlc(module, cfg, workers='auto', env=None, timeout=1800, simulate=None, depth=None, seed=None,
            coverage=False, deadlock=False, extra=(), xmx='8g', dfs=False):
    """Run TLC on spec/<module>.tla with spec/<cfg>; returns TLCResult."""
    os.makedirs(WORK, exist_ok=True)
    meta = tempfile.mkdtemp(prefix='tlc_', dir=WORK)
    cmd = ['java', '-XX:+UseParallelGC', '-Xmx' + xmx, '-Xss512m']
    if dfs:
        cmd.append('-Dtlc2.tool.queue.IStateQueue=StateDeque')
    cmd += ['-cp', '/opt/veriftools/tla/tla2tools.jar:/opt/veriftools/tla/CommunityModules-deps.jar', 'tlc2.TLC',
            '-metadir', meta, '-cleanup', '-noGenerateSpecTE', '-workers', str(workers), '-config', cfg]
    if not deadlock:
        cmd.append('-deadlock')   # TLC flag -deadlock DISABLES deadlock checking
    if coverage:
        cmd += ['-coverage', '1']
    if simulate:
        cmd += ['-simulate', 'num=%d' % simulate]
    if depth:
        cmd += ['-depth', str(depth)]
    if seed is not None:
        cmd += ['-seed', str(seed)]
    cmd += list(extra)
    cmd.append(module + '.tla')
    e = dict(os.environ)
    if env:
        e.update({k: str(v) for k, v in env.items()})
    t0 = time.time()
    try:
        p = subprocess.run(cmd, cwd=SPEC, env=e, stdout=subprocess.PIPE, stderr=subprocess.STDOUT,
                           timeout=timeout, text=True, errors='replace')
        out, rc = p.stdout, p.returncode
    except subprocess.TimeoutExpired as ex:
        out = (ex.stdout or b'')
        if isinstance(out, bytes):
            out = out.decode(errors='replace')
        out += '\nError: TLC timed out after %ds' % timeout
        rc = 124
    finally:
        shutil.rmtree(meta, ignore_errors=True)
    res = TLCResult(rc, out, time.time() - t0)
    if str(workers) != '1':
        # several workers print in a run-dependent order; make what the generators return reproducible
        res.prints.sort(key=lambda p: (p[0], json.dumps(p[1], sort_keys=True, default=repr)))
    return res


def run_apalache(module, cinit, init, inv, length, timeout=900):
    """Bounded symbolic check with Apalache (used for inductive invariants: --init=<invariant> --length=1).
    Returns 'ok' (no error up to that length), 'violated', or 'error: ...'."""
    os.makedirs(WORK, exist_ok=True)
    outdir = tempfile.mkdtemp(prefix='apa_', dir=WORK)
    cmd = ['apalache-mc', 'check', '--cinit=' + cinit, '--init=' + init, '--inv=' + inv, '--length=%d' % length,
           '--out-dir=' + outdir, module + '.tla']
    try:
        p = subprocess.run(cmd, cwd=SPEC, stdout=subprocess.PIPE, stderr=subprocess.STDOUT, timeout=timeout, text=True,
                           errors='replace')
        out = p.stdout
    except subprocess.TimeoutExpired:
        return 'error: timeout after %ds' % timeout
    except OSError as e:
        return 'error: %s' % e
    finally:
        shutil.rmtree(outdir, ignore_errors=True)
    if 'EXITCODE: OK' in out and 'The outcome is: NoError' in out:
        return 'ok'
    if 'The outcome is: Error' in out and 'violated' in out:
        return 'violated'
    return 'error: ' + out[-300:].replace('\n', ' | ')


def write_ndjson(path, records):
    with open(path, 'w') as f:
        for r in records:
            f.write(json.dumps(r, separators=(',', ':')) + '\n')


def validate_trace(module, cfg, records, timeout=900, keep=None, chunk=40000):
    """Run a trace spec over NDJSON records (passed through env TRACE).
    Returns (TLCResult, info) where info has 'matched' (events consumed), 'viol' (list).
    Long traces are cut at `reset` records into pieces of about `chunk` records, one TLC run each."""
    pieces = []
    cur = []
    for r in records:
        if r.get('ev') == 'reset' and len(cur) >= chunk:
            pieces.append(cur)
            cur = []
        cur.append(r)
    if cur or not pieces:
        pieces.append(cur)
    total = {'matched': 0, 'viol': [], 'total': len(records)}
    last = None
    for idx, piece in enumerate(pieces):
        res, info = _validate_piece(module, cfg, piece, timeout, keep if idx == 0 else None)
        if last is not None:
            res.distinct += last.distinct
            res.generated += last.generated
            res.wall += last.wall
            res.depth = max(res.depth, last.depth)
        last = res
        total['viol'] += info['viol']
        if info['matched'] is None or total['matched'] is None:
            total['matched'] = None
        else:
            total['matched'] += info['matched']
        if 'unmatched' in info and 'unmatched' not in total:
            total['unmatched'] = info['unmatched']
        if info['matched'] != info['total']:
            break
    return last, total


def _validate_piece(module, cfg, records, timeout, keep):
    os.makedirs(WORK, exist_ok=True)
    fd, path = tempfile.mkstemp(prefix='trace_', suffix='.ndjson', dir=WORK)
    os.close(fd)
    write_ndjson(path, records)
    try:
        res = run_tlc(module, cfg, workers=1, env={'TRACE': path}, timeout=timeout, dfs=True, xmx='4g')
    finally:
        if keep:
            shutil.copyfile(path, keep)
        os.unlink(path)
    info = {'matched': None, 'viol': [], 'total': len(records)}
    for tag, obj in res.prints:
        if tag == 'MATCHED':
            info['matched'] = int(obj) if not isinstance(obj, (dict, list)) else obj
        elif tag == 'VIOL':
            info['viol'].append(obj)
        elif tag == 'UNMATCHED':
            info['unmatched'] = obj
    return res, info
