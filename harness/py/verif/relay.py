"""C03 executor: serve a model-generated reply stream from the mock backend with concrete sizes and TCP
chunkings, relay it through pgcat, compare bytes in both directions."""
import os
import random
import socket
import struct
import time

from . import pgwire as W
from .client import Client
from .world import World, simple_pool, REPO

BIG_SIZES = [8196, 8197, 8200, 9000, 12000, 16392, 20000, 65536]
NEAR = [8180, 8190, 8191, 8195]


def body_of(kind, size, rng):
    """A syntactically valid message of `kind` whose total length (type byte + length word + body) is `size`."""
    n = max(0, size - 5)

    def pad(prefix, suffix=b''):
        fill = max(0, n - len(prefix) - len(suffix))
        return prefix + bytes(rng.choice(b'abcdefghijklmnopqrstuvwxyz0123456789') for _ in range(fill)) + suffix
    if kind == 'T':
        name = pad(b'', b'')[:max(1, n - 20)]
        body = struct.pack('!h', 1) + name.replace(b'\0', b'x') + b'\0' + struct.pack('!ihihih', 0, 0, 25, -1, -1, 0)
    elif kind == 'D':
        val = max(0, n - 6)
        body = struct.pack('!hi', 1, val) + bytes(rng.getrandbits(8) for _ in range(min(val, 64))) * 1
        body = body + b'v' * (6 + val - len(body))
    elif kind == 'C':
        body = pad(b'SELECT ', b'\0')
    elif kind == 'E':
        body = pad(b'SERROR\0C42601\0M', b'\0\0')
    elif kind == 'N':
        body = pad(b'SNOTICE\0C00000\0M', b'\0\0')
    elif kind == 'S':
        body = pad(b'some_parameter\0', b'\0')
    elif kind == 'I':
        body = b''
    elif kind == 'G' or kind == 'H':
        body = struct.pack('!bh', 0, 0)
    elif kind == 'd':
        body = pad(b'', b'\n')
    elif kind == 'c':
        body = b''
    elif kind == 'Z':
        body = b'I'
    elif kind in ('1', '2', '3', 'n', 's'):
        body = b''
    elif kind == 't':
        cnt = max(0, (n - 2) // 4)
        body = struct.pack('!h', cnt) + b''.join(struct.pack('!i', 23) for _ in range(cnt))
    else:
        body = pad(b'')
    return W.msg(kind.encode(), body)


def concretise(rng, stream, flood=False):
    """[[kind, abstract size]] -> list of (kind, bytes)"""
    out = []
    for kind, size in stream:
        if kind in ('D', 'd'):
            if size >= 8196 and flood:
                real = rng.choice([9000000, 12000000])     # more than the sockets on the way take while nobody reads
            elif size >= 8196:
                real = rng.choice(BIG_SIZES)
            else:
                real = rng.choice([12, 20, 60, 200, 1000, 3000, 4100] + (NEAR if rng.random() < 0.2 else []))
        elif size >= 8196:
            real = rng.choice(BIG_SIZES)
        elif kind in ('T', 'C', 'E', 'N', 'S', 't'):
            real = rng.choice([24, 40, 80, 300])
        else:
            real = size
        m = body_of(kind, real, rng)
        out.append((kind, m))
    return out


def run_relay(item):
    """item: {'id', 'stream': [[k, sz]...], 'seed', 'tls': bool, 'mode': 'transaction'|'session'}"""
    rng = random.Random(item['seed'])
    msgs = concretise(rng, item['stream'], bool(item.get('flood')))
    kinds = [k for k, _ in msgs]
    extended = any(k in '123tns' for k in kinds)
    # segments end at each CopyInResponse
    segs = []
    cur = b''
    for k, m in msgs:
        cur += m
        if k == 'G':
            segs.append(cur)
            cur = b''
    if cur:
        segs.append(cur)
    script = []
    for sg in segs:
        ncut = rng.choice([0, 0, 1, 2, 5])
        cuts = sorted(rng.randrange(1, max(2, len(sg))) for _ in range(ncut)) if len(sg) > 2 else []
        script.append((sg, cuts))
    total = b''.join(sg for sg in segs)
    out = {'id': item['id'], 'msgs': [[k, len(m)] for k, m in msgs], 'proto': 'extended' if extended else 'simple',
           'tls': bool(item.get('tls')), 'why': ''}
    general = {}
    if item.get('tls'):
        general = {'tls_certificate': os.path.join(REPO, '.circleci', 'server.cert'),
                   'tls_private_key': os.path.join(REPO, '.circleci', 'server.key')}
    with World('rl') as w:
        be = w.backend('p0', role='primary')
        be.record_bytes = True
        if item.get('flood_req'):
            be.small_rcvbuf = True
            be.body_stall = 1.2
        w.start(general=general, pools={'db': simple_pool([['127.0.0.1', be.port, 'primary']], pool_size=1,
                                                          mode=item.get('mode', 'transaction'))})
        c = Client(w.port, name='A', timeout=5.0, tls=bool(item.get('tls')))
        if c.startup.end != 'Z':
            out['error'] = 'startup ' + c.startup.brief()
            return out
        # warm the pool connection so that parameter sync etc. is out of the way
        c.query('SELECT 0')
        if item.get('pre') == 'lone_sync':
            # a batch the pooler answers itself right before the request under test: nothing of it may linger
            c.send(W.Sync())
            r0 = c.read_reply(3.0)
            if r0.end != 'Z':
                out['error'] = 'lone Sync: ' + r0.brief()
                return out
        mark = w.log.mark()
        hmark = len(w.hooks())
        be.scripts.append(script)
        if extended:
            sql = 'SELECT $1 ' + c.tag()
            sent = W.Parse('', sql) + W.Bind('', '', ['1']) + W.Describe('P', '') + W.Execute('', rng.choice([0, 0, 5])) + W.Sync()
            if rng.random() < 0.3:
                # pipelined: a second batch right behind the first (answered normally by the mock)
                pass
        elif item.get('flood_req'):
            # a statement of many megabytes to a server that takes it late: the pooler's write meets a full socket
            sent = W.Q('SELECT scripted ' + c.tag() + ' /*' + 'q' * rng.choice([9000000, 12000000]) + '*/')
        else:
            sent = W.Q('SELECT scripted ' + c.tag())
        if item.get('flood'):
            # the client is slow: a small receive buffer, and it starts reading late - the pooler's writes meet a full socket
            try:
                c.sock.setsockopt(socket.SOL_SOCKET, socket.SO_RCVBUF, 32768)
            except OSError:
                pass
        c.send(sent)
        if item.get('flood'):
            time.sleep(1.2)
        got = b''
        sent_copy = b''
        why = ''
        big = item.get('flood') or item.get('flood_req')
        deadline = time.time() + (8.0 if not big else 30.0)
        c.sock.settimeout(4.0 if not big else 10.0)
        done = False
        nseg = 0
        try:
            while not done and time.time() < deadline:
                t, b = W.read_msg(c.sock)
                got += W.msg(t, b)
                if t == b'G':
                    nseg += 1
                    chunks = b''.join(W.CopyData(bytes(rng.choice(b'0123456789,') for _ in range(rng.choice([5, 100, 5000, 9000, 20000]))) + b'\n')
                                      for _ in range(rng.choice([0, 1, 3])))
                    fin = W.CopyDone() if rng.random() < 0.8 else W.CopyFail('stop')
                    sent_copy += chunks + fin
                    c.send(chunks + fin)
                elif t == b'Z':
                    done = True
        except Exception as e:
            why = 'read: %s after %d bytes' % (type(e).__name__, len(got))
        if not done and not why:
            why = 'no ReadyForQuery within the deadline'
        out['client_ok'] = done and got == total
        if done and got != total:
            # first difference
            i = 0
            while i < min(len(got), len(total)) and got[i] == total[i]:
                i += 1
            why = 'bytes differ at offset %d (got %d, backend wrote %d)' % (i, len(got), len(total))
        # request direction: what the backend received for this request
        time.sleep(0.02)
        evs = w.log.snapshot()[mark:]
        recvd = b''.join(e['data'] for e in evs if e.get('ev') == 'be_read')
        expect_req = sent + sent_copy
        out['req_ok'] = recvd.startswith(expect_req) if done else True
        if done and not out['req_ok']:
            why += ' request: backend got %d bytes, client sent %d' % (len(recvd), len(expect_req))
        # follow-up request must be undisturbed
        nxt = True
        if done:
            rep = c.query('SELECT 1')
            ech = rep.echoes()
            nxt = rep.end == 'Z' and len(ech) == 1 and ech[0].get('c') == 'A' and ech[0].get('n') == c.serial
            if not nxt:
                why += ' next request: ' + rep.brief()[:120]
        out['next_ok'] = nxt
        out['why'] = why[:300]
        hooks = w.hooks()[hmark:]
        lens = []
        active = False
        for h in hooks:
            if h['ev'] == 'msg' and h.get('at') == 'idle' and h.get('code') in ('Q', 'S') and not lens:
                active = True
            elif h['ev'] == 'server_recv' and active:
                lens.append(h['len'])
            elif h['ev'] == 'release' and active:
                break
        out['recvs'] = lens
        out['alive'] = w.alive()
        c.close()
    return out
