"""Checks C01, C02, C04, C10: PoolCore model checking + generated behaviours replayed on pgcat +
trace validation (Trace_PoolCore)."""
import copy
import json
import os
import random

from . import core, tlc, poolcore

# violation kinds (Trace_PoolCore) and harness observations that decide each property
KINDS = {
    'C01': {'dirty_handoff_tx', 'session_shared', 'transaction_split', 'misattributed_result', 'double_checkout',
            'checkout_of_closed'},
    # a reply left unread for the next client shows as a result delivered to the wrong client
    'C02': {'dirty_handoff', 'dirty_handoff_tx', 'unclean_reuse', 'misattributed_result'},
    'C04': {'too_many_connections', 'leak_at_quiescence', 'no_checkout_error', 'waiter_not_served', 'waiter_refused', 'client_tasks_still_alive',
            'capacity_lost', 'backend_sessions_exceed', 'idle_client_holds_server'},
    'C10': {'cancel_wrong_target', 'map_entry_after_exit', 'cancel_misdirected',
            'cancel_without_session', 'cancel_lost', 'cancel_not_sent', 'cancel_after_release', 'cancel_unsolicited'},
}

GEN_CFGS = {
    'tx1': dict(mode='transaction', pool_size=1, cfg='Gen_PoolCore_tx1.cfg'),
    'sess1': dict(mode='session', pool_size=1, cfg='Gen_PoolCore_sess1.cfg'),
    'tx2': dict(mode='transaction', pool_size=2, cfg='Gen_PoolCore_tx2.cfg'),
}


ALL_KINDS = ('begin', 'stmt', 'fail', 'set', 'prep', 'copyin', 'copyin2', 'big', 'slow', 'local', 'reset1', 'commit', 'copydone', 'copyfail')


def gen_cfg_text(mode, pool_size, depth, clients=('A', 'B'), actors=('A',), maxmsgs=3, probes_last=False, extras=(),
                 actor_kinds=ALL_KINDS):
    def setof(xs):
        return '{' + ', '.join('"%s"' % x for x in xs) + '}'
    return '''SPECIFICATION GSpec
CONSTANTS
  Clients = %s
  Actors = %s
  Probes = %s
  Conns = {"s1", "s2"}
  NONE = NONE
  PoolSize = %d
  TxMode = %s
  Dev = {}
  MaxMsgs = %d
  Depth = %d
  ProbesLast = %s
  Extras = %s
  ActorKinds = %s
INVARIANT Emit
''' % (setof(clients), setof(actors), setof([c for c in clients if c not in actors]), pool_size,
       'TRUE' if mode == 'transaction' else 'FALSE', maxmsgs, depth, 'TRUE' if probes_last else 'FALSE', setof(extras),
       setof(actor_kinds))


def generate(v, name, mode, pool_size, depth, clients=('A', 'B'), actors=('A',), maxmsgs=3, probes_last=False, extras=()):
    cfg = 'Gen_PoolCore_%s_d%d.cfg' % (name, depth)
    with open(os.path.join(tlc.SPEC, cfg), 'w') as f:
        f.write(gen_cfg_text(mode, pool_size, depth, clients, actors, maxmsgs, probes_last, extras))
    res = tlc.run_tlc('Gen_PoolCore', cfg, workers=8, timeout=1500)
    if res.rc != 0:
        v.tool_error('Gen_PoolCore %s failed rc=%d: %s' % (cfg, res.rc, '; '.join(res.errors()[:3]) or res.out[-400:]))
        return []
    v.add_mc('gen:' + name, res)
    seen = set()
    out = []
    for tag, obj in res.prints:
        if tag != 'SCENARIO':
            continue
        steps = obj['steps'] if isinstance(obj, dict) else obj
        key = json.dumps(steps, sort_keys=True)
        if key in seen:
            continue
        seen.add(key)
        out.append({'steps': steps, 'mode': mode, 'pool_size': pool_size, 'family': name})
    return out


def realisable(sc):
    """Can the lock-step replay realise this history in real time?  The idle-in-transaction timeout is one setting for
    every client of the pooler: while the harness waits for client X's timeout (or for a statement that runs into the
    statement timeout), another client that the model has inside a transaction comes up to its own timeout as well, and
    which of the two fires first depends on the machine.  The untimed model does not cover that; such histories are left
    out (a handful: only families in which two clients may be inside transactions at once have them)."""
    steps = sc['steps']
    if not any(s['op'] == 'idle_tx_timeout' for s in steps):
        return True
    prev = None
    for s in steps:
        if s['op'] == 'state':
            prev = s
            continue
        long_wait = s['op'] == 'idle_tx_timeout' or (s['op'] in ('send', 'send_vanish') and s.get('k') == 'slow')
        if long_wait and prev is not None and any(pcv == 'intx' and c2 != s.get('c') for c2, pcv in prev['pcs'].items()):
            return False
    return True


def features(sc):
    """Abstract features of a scenario used for selection and for signatures."""
    ops = [(s['op'], s.get('c'), s.get('k')) for s in sc['steps'] if s['op'] != 'state']
    f = set()
    actor_sent = False
    for op, c, k in ops:
        if op == 'send' and c == 'A':
            actor_sent = True
            f.add('A:' + k)
        if op == 'send' and c != 'A' and actor_sent:
            f.add('handoff')
        if op == 'send_vanish':
            actor_sent = True
            f.add('vanish:' + k)
        if op in ('exit_in_tx', 'early_return', 'idle_tx_timeout', 'checkout_timeout', 'cancel', 'cancel_down', 'leave', 'reap', 'vanish'):
            f.add(op)
    # session mode: a second client sends while the first one's session (and with it the only connection) is still open
    if sc.get('mode') == 'session':
        a_open = False
        for op, c, k in ops:
            if op == 'send' and c == 'A':
                a_open = True
            if op in ('leave', 'exit_in_tx', 'early_return', 'send_vanish') and c == 'A':
                a_open = False
            if op == 'send' and c != 'A' and a_open:
                f.add('waits_behind_session')
    return f


def select(scenarios, rng, n, want):
    """Pick n scenarios, favouring those with the wanted features, covering every feature."""
    scored = []
    for sc in scenarios:
        f = features(sc)
        sc['_f'] = f
        scored.append((len(f & want), sc))
    good = [sc for s, sc in scored if s > 0]
    rest = [sc for s, sc in scored if s == 0]
    rng.shuffle(good)
    rng.shuffle(rest)
    # cover: one scenario per feature combination first
    by_combo = {}
    for sc in good:
        by_combo.setdefault(frozenset(sc['_f']), []).append(sc)
    picked = []
    combos = list(by_combo.values())
    rng.shuffle(combos)
    i = 0
    while len(picked) < int(n * 0.9) and combos:
        progressed = False
        for lst in combos:
            if i < len(lst):
                picked.append(lst[i])
                progressed = True
                if len(picked) >= int(n * 0.9):
                    break
        if not progressed:
            break
        i += 1
    picked += rest[:max(0, n - len(picked))]
    return picked[:n]


def last_op_of(steps, client):
    last = 'none'
    for s in steps:
        if s['op'] == 'state' or s.get('c') != client:
            continue
        if s['op'] == 'send':
            last = 'send:' + s['k']
        elif s['op'] == 'send_vanish':
            last = 'vanish:' + s['k']
        else:
            last = s['op']
    return last


def run_model_checks(v, prop, tier):
    # quick: two messages per client (every action is still taken, see action_coverage); thorough: three, three clients, session mode
    runs = [('design', 'MC_PoolCore_design_q.cfg' if tier == 'quick' else 'MC_PoolCore_design.cfg', True),
            ('asbuilt', 'MC_PoolCore_asbuilt.cfg', False),
            ('dev:reset_before_rollback', 'MC_PoolCore_dev_reset_before_rollback.cfg', False),
            ('dev:timeout_keeps_connection', 'MC_PoolCore_dev_timeout_keeps_connection.cfg', False),
            ('dev:error_keeps_copy_mode', 'MC_PoolCore_dev_error_keeps_copy_mode.cfg', False),
            ('dev:timeout_marks_bad_after_write', 'MC_PoolCore_dev_timeout_marks_bad_after_write.cfg', False),
            ('dev:local_batch_keeps_server', 'MC_PoolCore_dev_local_batch_keeps_server.cfg', False),
            ('dev:reset_clears_dirty', 'MC_PoolCore_dev_reset_clears_dirty.cfg', False),
            ('dev:cleanup_in_copy_reuses', 'MC_PoolCore_dev_cleanup_in_copy_reuses.cfg', False)]
    if prop == 'C10':
        runs.append(('dev:cancel_retried_later', 'MC_PoolCore_dev_cancel_retried_later.cfg', False))
    if tier == 'thorough':
        runs.insert(1, ('design_3c', 'MC_PoolCore_design3.cfg', True))
        runs.insert(2, ('design_session', 'MC_PoolCore_session.cfg', True))
    for name, cfg, must_hold in runs:
        res = tlc.run_tlc('PoolCore', cfg, workers=12, coverage=(name == 'design'), timeout=3000, xmx='24g')
        v.add_mc('mc:' + name, res)
        if must_hold:
            if res.rc != 0:
                if res.invariant_violated:
                    # the design itself breaks an invariant: a spec problem, not a verdict on the code
                    v.tool_error('PoolCore %s: invariant %s violated in the design model' % (cfg, res.invariant_violated))
                else:
                    v.tool_error('PoolCore %s: TLC rc=%d %s' % (cfg, res.rc, '; '.join(res.errors()[:2])))
            if name == 'design':
                never = [a for a, (d, t) in res.coverage.items() if t == 0 and a not in ('Init', 'DeliverLate')]   # (DeliverLate: deviation only)
                v.extra['action_coverage'] = {a: t for a, (d, t) in res.coverage.items()}
                if never:
                    v.tool_error('PoolCore design run: actions never taken: %s' % never)
        else:
            # negative control of the model: with the as-built deviations TLC must find the bad hand-off
            if not res.invariant_violated:
                v.tool_error('PoolCore %s: expected an invariant violation with deviations enabled' % cfg)
            else:
                v.extra.setdefault('model_negative_control', []).append('%s violates %s' % (name, res.invariant_violated))


def validate(v, family, results, key):
    """Concatenate traces of all scenarios, validate with TLC; returns {sc_id: [viol...]}."""
    recs = []
    nc = ns = 1
    for r in results:
        t = r.get(key)
        if not t:
            continue
        recs += t['recs']
        nc = max(nc, t['nc'])
        ns = max(ns, t['ns'])
    if not recs:
        return {}
    os.environ['NC'] = str(nc)
    os.environ['NS'] = str(ns)
    res, info = tlc.validate_trace('Trace_PoolCore', 'Trace_PoolCore.cfg', recs, timeout=1500)
    v.add_mc('trace:' + family, res)
    if info['matched'] != info['total']:
        v.tool_error('Trace_PoolCore(%s): consumed %s of %d records: %s' % (
            family, info['matched'], info['total'], '; '.join(res.errors()[:3]) or res.out[-600:]))
        return {}
    byid = {}
    for vi in info['viol']:
        byid.setdefault(vi['sc'], []).append(vi)
    return byid


def negative_control(v, results):
    """Corrupt one clean recorded trace; TLC must notice."""
    for r in results:
        t = r.get('hook_trace')
        if not t:
            continue
        recs = copy.deepcopy(t['recs'])
        idx = [i for i, x in enumerate(recs) if x['ev'] == 'put_back' and not x['in_tx']]
        co = [i for i, x in enumerate(recs) if x['ev'] == 'checkout_ok']
        idx = [i for i in idx if any(j > i and recs[j]['s'] == recs[i]['s'] for j in co)]
        if not idx:
            continue
        recs[idx[-1]]['in_tx'] = True          # a connection that was handed out again went back unclean
        os.environ['NC'] = str(t['nc'])
        os.environ['NS'] = str(t['ns'])
        res, info = tlc.validate_trace('Trace_PoolCore', 'Trace_PoolCore.cfg', recs)
        if not any(x['kind'] == 'unclean_reuse' for x in info['viol']):
            v.tool_error('negative control: corrupted trace was accepted (vacuous binding)')
        else:
            v.extra['negative_control'] = 'flipped put_back.in_tx in scenario %s: rejected (unclean_reuse)' % r['id']
        return
    v.tool_error('negative control: no suitable trace')


def check(prop, tier, seed):
    v = core.Verdict(prop, tier, seed)
    rng = random.Random(seed)
    v.assumptions = [
        'mock PostgreSQL backend (harness/py/verif/mockpg.py) follows PostgreSQL protocol and session semantics',
        'TLC explores PoolCore exhaustively only within the constants of the MC_*.cfg files',
        'hook events are emitted at the linearization points listed in DESIGN.md Appendix A',
        'lock-step replay: one controllable step at a time; concurrency comes from the seeded concurrent driver',
    ]
    core.build_pgcat()
    run_model_checks(v, prop, tier)
    # the same generators in both tiers (one more step multiplies the histories by ~12); thorough replays many more of them
    depth = 6
    scenarios = []
    scenarios += generate(v, 'tx1', 'transaction', 1, depth - 1)
    # hand-off families: the probe runs after the actor has gone; longer actor programs
    scenarios += generate(v, 'tx1h', 'transaction', 1, depth + (0 if tier == 'quick' else 1), maxmsgs=4, probes_last=True)
    scenarios += generate(v, 'sess1h', 'session', 1, depth, maxmsgs=3, probes_last=True)
    # histories with clients whose socket is reset while a message is in flight, and with the pool's reaper
    scenarios += generate(v, 'tx1v', 'transaction', 1, depth - 1, probes_last=True, extras=('vanish',))
    if prop in ('C02', 'C04'):
        scenarios += generate(v, 'tx1r', 'transaction', 1, depth - 2, extras=('reap',))
    if prop == 'C10':
        # cancel requests made while the server's listener is down for a moment (the request is dropped, never kept)
        scenarios += generate(v, 'tx1c', 'transaction', 1, depth, maxmsgs=1, probes_last=True, extras=('ldown',))
    if prop in ('C01', 'C04', 'C10'):
        scenarios += generate(v, 'sess1', 'session', 1, depth - 1)
    if prop in ('C04', 'C01') or tier == 'thorough':
        scenarios += generate(v, 'tx2', 'transaction', 2, depth - 1)
    n_gen = len(scenarios)
    scenarios = [sc for sc in scenarios if realisable(sc)]
    v.extra['histories_left_out_as_timing_dependent'] = n_gen - len(scenarios)
    want = {
        'C01': {'handoff', 'A:local', 'A:begin', 'A:copyin', 'A:copyin2', 'A:fail', 'A:slow', 'early_return', 'exit_in_tx', 'idle_tx_timeout',
                'vanish:slow', 'vanish:begin', 'vanish:stmt', 'vanish:big'},
        'C02': {'handoff', 'A:set', 'A:reset1', 'A:prep', 'A:begin', 'A:fail', 'A:copyin', 'A:copyin2', 'A:slow', 'early_return', 'exit_in_tx',
                'idle_tx_timeout', 'A:big', 'vanish:slow', 'vanish:begin', 'vanish:set', 'vanish:stmt', 'vanish:big', 'vanish:commit',
                'reap'},
        'C04': {'checkout_timeout', 'early_return', 'exit_in_tx', 'handoff', 'idle_tx_timeout', 'leave', 'reap', 'vanish', 'A:local',
                'vanish:slow', 'vanish:begin', 'vanish:stmt'},
        'C10': {'cancel', 'cancel_down'},
    }[prop]
    n = {'quick': 400, 'thorough': 6000}[tier]
    # witness corpus: behaviours in which some deviation class of PoolCore breaks an invariant (tools/gen_witnesses.py)
    witnesses = []
    try:
        with open(os.path.join(tlc.SPEC, 'witnesses_poolcore.json')) as f:
            witnesses = json.load(f)
    except FileNotFoundError:
        v.tool_error('spec/witnesses_poolcore.json missing (run tools/gen_witnesses.py)')
    witnesses = [wsc for wsc in witnesses if realisable(wsc)]
    bydev = {}
    for wsc in witnesses:
        for d in wsc['witness_of']:
            bydev.setdefault(d, []).append(wsc)
    nw = {'quick': 260, 'thorough': len(witnesses)}[tier]
    picked_w = []
    seenw = set()
    devs = sorted(bydev)
    for d in devs:
        rng.shuffle(bydev[d])
    i = 0
    while len(picked_w) < nw:
        progressed = False
        for d in devs:
            if i < len(bydev[d]):
                k = (bydev[d][i]['family'], json.dumps(bydev[d][i]['steps'], sort_keys=True))
                progressed = True
                if k not in seenw:
                    seenw.add(k)
                    picked_w.append(dict(bydev[d][i]))
                    if len(picked_w) >= nw:
                        break
        if not progressed:
            break
        i += 1
    v.extra['witness_scenarios'] = len(picked_w)
    chosen = picked_w + select(scenarios, rng, max(50, n - len(picked_w)), want)
    if prop in ('C01', 'C04'):
        # quota: session-mode histories in which a client has to wait behind another client's open session
        have = {json.dumps(sc['steps'], sort_keys=True) for sc in chosen}
        extra = [sc for sc in scenarios if 'waits_behind_session' in features(sc) and json.dumps(sc['steps'], sort_keys=True) not in have]
        rng.shuffle(extra)
        extra = extra[:40]
        chosen = chosen[:len(chosen) - len(extra)] + extra if len(chosen) > len(extra) + len(picked_w) else chosen + extra
    for i, sc in enumerate(chosen):
        sc['id'] = i + 1
        sc['seed'] = seed * 100003 + i
        # where the configuration states the pool mode: at pool level, or for the user (contradicting the pool level)
        sc['mode_at'] = 'user' if (i % 3 == 1 or (sc.get('mode') == 'session' and i % 2 == 0)) else 'pool'
        sc['restart_epilogue'] = prop == 'C04' and i % 4 == 0
        # every third world names its server by host name, with the pooler's DNS cache on
        sc['named_host'] = i % 6 in (2, 4)
        sc.pop('_f', None)
    v.extra['scenarios_generated'] = len(scenarios)
    results = core.run_parallel(poolcore.run_scenario, chosen, workers=14)
    byid = {sc['id']: sc for sc in chosen}
    ok_results = []
    for r in results:
        if 'error' in r:
            v.tool_error('scenario crashed: ' + r['error'][-600:])
            continue
        if r.get('mock_exception'):
            v.tool_error('mock backend exception: %s' % r['mock_exception'].get('tb', '')[-500:])
            continue
        ok_results.append(r)
    v.cov['evaluations'] = len(ok_results)
    hv = validate(v, 'hooks', ok_results, 'hook_trace')
    bv = validate(v, 'backend', ok_results, 'backend_trace')
    v.cov['traces_validated_against_impl'] = 2 * len(ok_results) if not v.tool_errors else 0
    negative_control(v, ok_results)
    mine = KINDS[prop]
    other = {}
    for r in ok_results:
        sc = byid[r['id']]
        feats = features(sc)
        if feats & want:
            v.nontrivial_case(sorted(feats))
        found = []
        for vi in hv.get(r['id'], []) + bv.get(r['id'], []):
            kind = vi['kind']
            d = vi['detail']
            if kind == 'dirty_handoff':
                what = d.get('what', '')
                txish = [x for x in what.split(',') if x.startswith('tx=') or x.startswith('copy=')]
                k2 = 'dirty_handoff_tx' if txish else 'dirty_handoff'
                prevname = 'A'
                sig = 'dirty_handoff/%s/after=%s' % (what.replace(',', '+'), last_op_of(sc['steps'], prevname))
                found.append((k2, sig, vi))
            elif kind == 'unclean_reuse':
                flags = '+'.join(x for x in ('in_tx', 'in_copy', 'da', 'dirty') if d.get(x))
                sig = 'unclean_reuse/%s/after=%s' % (flags, last_op_of(sc['steps'], 'A'))
                found.append((kind, sig, vi))
            else:
                found.append((kind, '%s/after=%s' % (kind, last_op_of(sc['steps'], 'A')), vi))
        for o in r['obs']:
            found.append((o['kind'], '%s/after=%s' % (o['kind'], last_op_of(sc['steps'], 'A')), o))
        if not r.get('alive', True):
            found.append(('pgcat_died', 'pgcat_died', {}))
        for kind, sig, detail in found:
            if kind in mine or kind == 'pgcat_died':
                v.violation(sig, detail, replay={'scenario': sc, 'cfg': r.get('cfg')})
            else:
                other[kind] = other.get(kind, 0) + 1
    if other:
        v.extra['observations_for_other_properties'] = other
    for r in ok_results[:2]:
        v.add_sample({'scenario': [(s['op'], s.get('c'), s.get('k')) for s in byid[r['id']]['steps'] if s['op'] != 'state'],
                      'hook_trace_head': r['hook_trace']['recs'][:8], 'backend_trace_head': r['backend_trace']['recs'][:6]})
    v.cov['rule'] = ('scenarios = maximal controllable histories printed by TLC from Gen_PoolCore (every behaviour of the '
                     'model within Depth), a seeded subset replayed on pgcat in lock-step; non-trivial = reaches one of %s; '
                     'distinct = distinct feature sets' % sorted(want))
    return v.finish()
