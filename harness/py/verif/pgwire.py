"""PostgreSQL wire-protocol helpers (frontend and backend side), stdlib only."""
import struct
import socket


def msg(t, body=b''):
    if isinstance(t, str):
        t = t.encode()
    return t + struct.pack('!i', len(body) + 4) + body


def cstr(s):
    if isinstance(s, str):
        s = s.encode()
    return s + b'\0'


def recvn(sock, n):
    buf = b''
    while len(buf) < n:
        chunk = sock.recv(n - len(buf))
        if not chunk:
            raise EOFError('eof after %d of %d bytes' % (len(buf), n))
        buf += chunk
    return buf


def read_msg(sock):
    t = recvn(sock, 1)
    ln = struct.unpack('!i', recvn(sock, 4))[0]
    if ln < 4:
        raise ValueError('bad length %d' % ln)
    return t, recvn(sock, ln - 4)


def read_startup(sock):
    ln = struct.unpack('!i', recvn(sock, 4))[0]
    if ln < 8 or ln > 1 << 20:
        raise ValueError('bad startup length %d' % ln)
    return recvn(sock, ln - 4)


def startup_packet(params):
    body = struct.pack('!i', 196608)
    for k, v in params:
        body += cstr(k) + cstr(v)
    body += b'\0'
    return struct.pack('!i', len(body) + 4) + body


def ssl_request():
    return struct.pack('!ii', 8, 80877103)


def cancel_packet(pid, key):
    return struct.pack('!iiii', 16, 80877102, pid, key)


# ---- frontend messages
def Q(sql):
    return msg(b'Q', cstr(sql))


def Parse(name, sql, types=()):
    b = cstr(name) + cstr(sql) + struct.pack('!h', len(types))
    for t in types:
        b += struct.pack('!i', t)
    return msg(b'P', b)


def Bind(portal='', stmt='', params=(), fmts=(), rfmts=()):
    b = cstr(portal) + cstr(stmt) + struct.pack('!h', len(fmts))
    for f in fmts:
        b += struct.pack('!h', f)
    b += struct.pack('!h', len(params))
    for p in params:
        if p is None:
            b += struct.pack('!i', -1)
        else:
            if isinstance(p, str):
                p = p.encode()
            b += struct.pack('!i', len(p)) + p
    b += struct.pack('!h', len(rfmts))
    for f in rfmts:
        b += struct.pack('!h', f)
    return msg(b'B', b)


def Describe(kind, name=''):
    return msg(b'D', kind.encode() + cstr(name))


def Execute(portal='', maxrows=0):
    return msg(b'E', cstr(portal) + struct.pack('!i', maxrows))


def Close(kind, name=''):
    return msg(b'C', kind.encode() + cstr(name))


def Sync():
    return msg(b'S')


def Flush():
    return msg(b'H')


def Terminate():
    return msg(b'X')


def CopyData(data):
    return msg(b'd', data)


def CopyDone():
    return msg(b'c')


def CopyFail(reason='fail'):
    return msg(b'f', cstr(reason))


def Password(p):
    return msg(b'p', cstr(p))


# ---- backend messages
def AuthOk():
    return msg(b'R', struct.pack('!i', 0))


def AuthMD5(salt):
    return msg(b'R', struct.pack('!i', 5) + salt)


def ParameterStatus(k, v):
    return msg(b'S', cstr(k) + cstr(v))


def BackendKeyData(pid, key):
    return msg(b'K', struct.pack('!ii', pid, key))


def Ready(tx):
    return msg(b'Z', tx.encode())


def ErrorResponse(code, message, severity='ERROR'):
    return msg(b'E', b'S' + cstr(severity) + b'V' + cstr(severity) + b'C' + cstr(code) + b'M' + cstr(message) + b'\0')


def Notice(message):
    return msg(b'N', b'S' + cstr('NOTICE') + b'C' + cstr('00000') + b'M' + cstr(message) + b'\0')


def RowDescription(cols):
    b = struct.pack('!h', len(cols))
    for c in cols:
        b += cstr(c) + struct.pack('!ihihih', 0, 0, 25, -1, -1, 0)
    return msg(b'T', b)


def DataRow(vals):
    b = struct.pack('!h', len(vals))
    for v in vals:
        if v is None:
            b += struct.pack('!i', -1)
        else:
            if isinstance(v, str):
                v = v.encode()
            b += struct.pack('!i', len(v)) + v
    return msg(b'D', b)


def CommandComplete(tag):
    return msg(b'C', cstr(tag))


def parse_error_fields(body):
    out = {}
    for part in body.split(b'\0'):
        if part:
            out[chr(part[0])] = part[1:].decode(errors='replace')
    return out


def parse_datarow(body):
    n = struct.unpack('!h', body[:2])[0]
    off = 2
    vals = []
    for _ in range(n):
        ln = struct.unpack('!i', body[off:off + 4])[0]
        off += 4
        if ln < 0:
            vals.append(None)
        else:
            vals.append(body[off:off + ln])
            off += ln
    return vals


def split_messages(data):
    """Split a byte string into (type, body) messages; returns (msgs, rest)."""
    out = []
    off = 0
    while len(data) - off >= 5:
        ln = struct.unpack('!i', data[off + 1:off + 5])[0]
        if ln < 4 or len(data) - off - 1 < ln:
            break
        out.append((data[off:off + 1], data[off + 5:off + 1 + ln]))
        off += 1 + ln
    return out, data[off:]


def free_port():
    s = socket.socket()
    s.bind(('127.0.0.1', 0))
    p = s.getsockname()[1]
    s.close()
    return p
