"""Check C12: a client's session parameters follow it across server connections."""
import json
import os
import random
import time

from . import core, tlc
from . import pgwire as W
from .client import Client
from .world import World, simple_pool

TRACKED = ['application_name', 'TimeZone', 'DateStyle', 'client_encoding', 'standard_conforming_strings']
SERVER_DEFAULT = {'application_name': 'pgcat', 'TimeZone': 'Etc/UTC', 'DateStyle': 'ISO, MDY', 'client_encoding': 'UTF8',
                  'standard_conforming_strings': 'on', 'work_mem': '4MB'}
PNAME = {'app': 'application_name', 'tz': 'TimeZone', 'wm': 'work_mem'}
VALUE = {
    'application_name': {'d': 'pgcat', 'v1': ['My App', 'App-2', 'Billing', 'ünïcode App', 'Aa' * 30],
                         'vq': ["O'Rei;lly", "it's", "'; DROP TABLE t; --", "a'b'c", "back\\slash'q"]},
    'TimeZone': {'d': 'Etc/UTC', 'v1': ['Europe/Paris', 'America/New_York', 'UTC'], 'vq': ["Zone'X", "Eu'rope"]},
    'work_mem': {'d': '4MB', 'v1': ['8MB', '64kB'], 'vq': ["9'MB"]},
}
STARTUP_KEY = {'application_name': 'application_name', 'TimeZone': ['TimeZone', 'timezone'], 'DateStyle': ['DateStyle', 'datestyle'],
               'client_encoding': 'client_encoding'}


def sql_quote(v):
    return "'" + v.replace("'", "''") + "'"


def run_scenario(item):
    rng = random.Random(item['seed'])
    out = {'id': item['id'], 'recs': [{'ev': 'reset', 'sc': item['id']}], 'notes': []}
    recs = out['recs']
    with World('pm') as w:
        be = w.backend('p0')
        w.start(pools={'db': simple_pool([['127.0.0.1', be.port, 'primary']], pool_size=item.get('pool_size', 1))})
        clients = {}
        startup = {}      # client -> {param: value} chosen before the connection is opened
        intx = {}
        mywm = {}

        base = {p: (v['v1'] if isinstance(v['v1'], str) else rng.choice(v['v1'])) for p, v in VALUE.items()}

        def pick(param, cls):
            # v1 is one fixed value per scenario; vc is the same value in different letter case
            if cls == 'v1':
                return base[param]
            if cls == 'vc':
                return base[param].swapcase() if param == 'application_name' else base[param]
            v = VALUE[param][cls]
            return v if isinstance(v, str) else rng.choice(v)

        def connect(n):
            vals = dict(startup.get(n, {}))
            params = []
            for k, v in vals.items():
                key = STARTUP_KEY.get(k, k)
                if isinstance(key, list):
                    key = rng.choice(key)
                params.append((key, v))
            extra = item.get('extra_startup')
            if extra and rng.random() < 0.5:
                params.append(('DateStyle', rng.choice(['SQL, DMY', 'German', 'ISO, MDY'])))
                vals['DateStyle'] = params[-1][1]
            c = Client(w.port, name=n, timeout=4.0, params=params)
            clients[n] = c
            eff = {p: vals.get(p, SERVER_DEFAULT[p]) for p in TRACKED}
            told = {p: c.server_params.get(p, '') for p in TRACKED}
            recs.append({'ev': 'startup', 'c': n, 'vals': eff, 'told': told})
            intx[n] = False
            mywm[n] = False
            return c

        for st in item['steps']:
            op, n = st['op'], st['c']
            if op == 'startup':
                if n in clients:
                    clients[n].terminate()
                    del clients[n]
                startup.setdefault(n, {})[PNAME[st['p']]] = pick(PNAME[st['p']], st['v'])
                continue
            c = clients.get(n) or connect(n)
            if op == 'begin':
                rep = c.query('BEGIN')
                intx[n] = rep.status == 'T'
            elif op == 'commit':
                rep = c.query('COMMIT')
                intx[n] = False
                mywm[n] = False
            elif op == 'stmt':
                mark = w.log.mark()
                rep = c.query('SELECT 1')
                evs = [e for e in w.log.snapshot()[mark:] if e['ev'] == 'exec' and e.get('client') == n]
                if rep.end != 'Z' or not evs:
                    out['notes'].append('statement failed: ' + rep.brief()[:100])
                    continue
                vals = evs[0]['vals']
                foreign = ''
                if vals.get('work_mem') != SERVER_DEFAULT['work_mem'] and not mywm[n]:
                    foreign = 'work_mem=' + vals.get('work_mem', '')
                recs.append({'ev': 'exec', 'c': n, 'vals': {p: vals.get(p, '') for p in TRACKED}, 'foreign': foreign})
            elif op == 'set':
                param = PNAME[st['p']]
                val = pick(param, st['v'])
                before = dict(c.server_params)
                c.server_params.pop(param, None)
                lead = ''
                if st.get('behind_copy'):
                    # the SET travels as a later statement of a simple query, behind a COPY whose data comes first
                    lead = 'COPY t TO STDOUT /*v:rows=2*/; '
                rep = c.query(lead + 'SET %s TO %s' % (param, sql_quote(val)))
                ok = rep.end == 'Z' and not rep.errors
                reported = c.server_params.get(param, '')
                if param not in c.server_params and param in before:
                    c.server_params[param] = before[param]
                if param == 'work_mem' and ok:
                    mywm[n] = True
                if not intx[n]:
                    mywm[n] = False if param == 'work_mem' else mywm[n]   # autocommit SET: reset at check-in
                recs.append({'ev': 'set', 'c': n, 'p': param, 'v': val, 'ok': ok, 'reported': reported})
        out['alive'] = w.alive()
        for c in clients.values():
            c.close()
    return out


def check_c12(prop, tier, seed):
    v = core.Verdict(prop, tier, seed)
    rng = random.Random(seed)
    v.assumptions = [
        'the mock backend\'s GUC table (SET / SET LOCAL / RESET ALL, transactional SET, GUC_REPORT ParameterStatus) is the '
        'ground truth for the value a session had when a statement ran',
        'values are drawn from small classes (default, plain incl. non-ASCII/long, containing quotes/semicolons/backslashes)',
    ]
    core.build_pgcat()
    res = tlc.run_tlc('Params', 'MC_Params.cfg', workers=8, coverage=True)
    v.add_mc('mc:design', res)
    if res.rc != 0:
        v.tool_error('Params design rc=%d %s' % (res.rc, res.errors()[:2]))
    for d in ('quote_not_escaped', 'no_sync', 'status_not_tracked', 'no_reset'):
        r2 = tlc.run_tlc('Params', 'MC_Params_dev_%s.cfg' % d, workers=8)
        v.add_mc('mc:dev:' + d, r2)
        if not r2.invariant_violated:
            v.tool_error('Params deviation %s not detected' % d)
        else:
            v.extra.setdefault('model_negative_control', []).append('%s violates %s' % (d, r2.invariant_violated))
    # histories of any length: IndInv of ParamsApa.tla (which implies both invariants) holds initially and is preserved by
    # every step of the design (Apalache, symbolic); it is not inductive when the checkout synchronisation is left out
    apa = [('initial', 'ConstInit', 'Init', 'IndInv', 0, 'ok'), ('step', 'ConstInit', 'IndInit', 'IndInv', 1, 'ok'),
           ('implies_properties', 'ConstInit', 'IndInit', 'Props', 0, 'ok'),
           ('negative_control_no_sync', 'ConstInitNoSync', 'IndInit', 'IndInv', 1, 'violated')]
    for name, cinit, init, inv, length, expect in apa:
        got = tlc.run_apalache('ParamsApa', cinit, init, inv, length, timeout=900)
        v.extra.setdefault('apalache_inductive_invariant', []).append({'check': name, 'result': got})
        if got != expect:
            v.tool_error('Apalache %s: expected %s, got %s' % (name, expect, got))
    n = {'quick': 500, 'thorough': 8000}[tier]
    res = tlc.run_tlc('Gen_Params', 'Gen_Params.cfg', workers=1, simulate=n * 3, depth=13, seed=seed, timeout=1200)
    if res.rc != 0:
        v.tool_error('Gen_Params rc=%d %s' % (res.rc, res.errors()[:2]))
        return v.finish()
    v.add_mc('gen(simulate)', res)
    seen = set()
    uniq = []
    for t, o in res.prints:
        if t == 'SCENARIO':
            k = json.dumps(o, sort_keys=True)
            if k not in seen:
                seen.add(k)
                uniq.append(o)

    def score(s):
        sc = sum(2 for x in s if x['op'] == 'stmt') + sum(1 for x in s if x['op'] in ('set', 'startup'))
        sc += 3 * len({x['c'] for x in s if x['op'] == 'stmt'})
        sc += sum(2 for x in s if x.get('v') in ('vq', 'vc'))
        return sc
    uniq.sort(key=lambda s: -score(s))
    chosen = uniq[:n]
    v.extra['programs_generated'] = len(uniq)
    # pairwise family (also behaviours of Gen_Params): two clients state value classes (va, vb) for one tracked
    # parameter and then alternate statements on the shared connection; optionally one of them SETs the other's class
    pair = []
    for p in ('app', 'tz'):
        for va in ('d', 'v1', 'vc', 'vq'):
            for vb in ('d', 'v1', 'vc', 'vq'):
                prog = [{'op': 'startup', 'c': 'A', 'p': p, 'v': va}, {'op': 'startup', 'c': 'B', 'p': p, 'v': vb}]
                for c in ('A', 'B', 'A', 'B'):
                    prog += [{'op': 'begin', 'c': c, 'p': '', 'v': ''}, {'op': 'stmt', 'c': c, 'p': '', 'v': ''},
                             {'op': 'commit', 'c': c, 'p': '', 'v': ''}]
                pair.append(prog)
                prog2 = [{'op': 'startup', 'c': 'A', 'p': p, 'v': va},
                         {'op': 'begin', 'c': 'A', 'p': '', 'v': ''}, {'op': 'stmt', 'c': 'A', 'p': '', 'v': ''},
                         {'op': 'set', 'c': 'A', 'p': p, 'v': vb}, {'op': 'stmt', 'c': 'A', 'p': '', 'v': ''},
                         {'op': 'commit', 'c': 'A', 'p': '', 'v': ''},
                         {'op': 'begin', 'c': 'B', 'p': '', 'v': ''}, {'op': 'stmt', 'c': 'B', 'p': '', 'v': ''},
                         {'op': 'commit', 'c': 'B', 'p': '', 'v': ''},
                         {'op': 'begin', 'c': 'A', 'p': '', 'v': ''}, {'op': 'stmt', 'c': 'A', 'p': '', 'v': ''},
                         {'op': 'commit', 'c': 'A', 'p': '', 'v': ''}]
                pair.append(prog2)
    chosen = pair + chosen[:max(0, n - len(pair))]
    items = [{'id': j + 1, 'steps': s, 'seed': seed * 23 + j, 'pool_size': 1 if j % 3 else 2, 'extra_startup': j % 4 == 0}
             for j, s in enumerate(chosen)]
    for it in items[:len(pair)]:
        it['pool_size'] = 1
        it['extra_startup'] = False
    # every fourth program sends its SETs behind a COPY in the same simple query (same effect on the session, other path
    # through the reply reader)
    for j, it in enumerate(items):
        if j % 4 == 2:
            it['steps'] = [dict(x, behind_copy=True) if x['op'] == 'set' else x for x in it['steps']]
    results = core.run_parallel(run_scenario, items, workers=14)
    recs = []
    ok = []
    for it, r in zip(items, results):
        if 'error' in r:
            v.tool_error('params scenario crashed: ' + r['error'][-500:])
            continue
        ok.append((it, r))
        recs += r['recs']
        if not r.get('alive', True):
            v.violation('pgcat_died', {}, replay=it)
        if sum(1 for x in r['recs'] if x['ev'] == 'exec') >= 2:
            v.nontrivial_case(json.dumps(it['steps'], sort_keys=True))
    v.cov['evaluations'] = len(ok)
    res, info = tlc.validate_trace('Trace_Params', 'Trace_Params.cfg', recs, timeout=900)
    v.add_mc('trace', res)
    if info['matched'] != info['total']:
        v.tool_error('Trace_Params consumed %s of %s: %s' % (info['matched'], info['total'], res.errors()[:2] or res.out[-500:]))
    else:
        v.cov['traces_validated_against_impl'] = len(ok)
    byid = {it['id']: (it, r) for it, r in ok}
    for vi in info['viol']:
        it, r = byid[vi['sc']]
        d = vi['detail']
        if vi['kind'] == 'wrong_value':
            quoted = any("'" in str(x) for x in (d.get('client_value') or {}).values())
            sig = 'wrong_value/%s/%s' % ('+'.join(sorted(d['params'])), 'value_with_quote' if quoted else 'plain_value')
        else:
            sig = vi['kind']
        v.violation(sig, d, replay=it)
    done = False
    for it, r in ok:
        idx = [i for i, x in enumerate(r['recs']) if x['ev'] == 'exec']
        if idx:
            seg = [json.loads(json.dumps(x)) for x in r['recs'][:idx[0] + 1]]
            seg[-1]['vals']['TimeZone'] = 'Mars/Olympus'
            res2, info2 = tlc.validate_trace('Trace_Params', 'Trace_Params.cfg', seg)
            if any(x['kind'] == 'wrong_value' for x in info2['viol']):
                v.extra['negative_control'] = 'changed the TimeZone a session had under one statement: rejected'
            else:
                v.tool_error('negative control failed')
            done = True
            break
    if not done:
        v.tool_error('negative control: no exec record')
    for it, r in ok[:2]:
        v.add_sample({'program': [(x['op'], x['c'], x['p'], x['v']) for x in it['steps']], 'trace': r['recs'][1:5]})
    v.cov['rule'] = ('programs = random behaviours (tlc -simulate, seeded) of Gen_Params: 9 steps over {startup parameter, BEGIN, '
                     'statement, SET tracked/untracked, COMMIT} by 2 clients sharing 1-2 server connections, value classes '
                     '{default, plain, same letters in other case, with quotes}, plus the pairwise family (every ordered pair of value classes for one parameter, two clients alternating on one connection); non-trivial = at least two statements executed; distinct = programs')
    return v.finish()
