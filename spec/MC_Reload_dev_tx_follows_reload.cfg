SPECIFICATION Spec
CONSTANTS
  Clients = {c1, c2}
  Defs = {"A", "B"}
  MaxOps = 7
  Dev = {"tx_follows_reload"}
INVARIANTS ConfigIsValid PoolsFollowConfig NoViolation InvalidChangesNothing
