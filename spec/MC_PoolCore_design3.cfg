SPECIFICATION Spec
CONSTANTS
  Clients = {c1, c2, c3}
  Conns = {s1, s2}
  NONE = NONE
  PoolSize = 2
  TxMode = TRUE
  Dev = {}
  MaxMsgs = 2
SYMMETRY Perms
INVARIANTS TypeOK ExclusiveHold CleanHandoff IdleIsClean Bounded NoLeak MapSound MapComplete BeliefSound HoldsOnlyInTx
