SPECIFICATION Spec
CONSTANTS
  Clients = {c1, c2}
  Defs = {"A", "B"}
  MaxOps = 7
  Dev = {"removed_pool_falls_back"}
INVARIANTS ConfigIsValid PoolsFollowConfig NoViolation InvalidChangesNothing
