SPECIFICATION GSpec
CONSTANTS
  Clients = {"X", "Y"}
  Defs = {"A", "B", "R", "P"}
  MaxOps = 100
  Dev = {}
  Depth = 6
INVARIANT Emit
