SPECIFICATION GSpec
CONSTANTS
  Clients = {"X", "Y"}
  Defs = {"A", "B", "R"}
  MaxOps = 100
  Dev = {}
  Depth = 6
INVARIANT Emit
