SPECIFICATION GSpec
CONSTANTS
  Clients = {"X", "Y"}
  Defs = {"A", "B"}
  MaxOps = 100
  Dev = {}
  Depth = 6
INVARIANT Emit
