SPECIFICATION Spec
CONSTANTS
  Clients = {c1, c2}
  MaxOps = 5
  Dev = {"read_before_register"}
INVARIANT HeldWhilePaused
PROPERTY AllProceed
