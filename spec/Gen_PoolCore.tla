---------------------------- MODULE Gen_PoolCore ----------------------------
(***************************************************************************)
(* Behaviour generator for PoolCore: the same actions, plus a history of    *)
(* the CONTROLLABLE steps (what clients and faults do).  Internal steps of  *)
(* the pooler (checkout, forward, release) take priority, so a history      *)
(* determines the behaviour up to the choice of connection slot; after the  *)
(* internal steps have settled the client program counters are appended as  *)
(* an expectation (which client has its reply, which one is still waiting   *)
(* for a connection).  TLC prints every maximal history once; the harness   *)
(* replays them on the real pgcat in lock-step.                              *)
(***************************************************************************)
EXTENDS PoolCore, Json

CONSTANTS Depth,      \* controllable steps per scenario
          Actors,     \* clients with the full alphabet
          Probes,     \* clients that only connect, run plain statements, leave
          ProbesLast, \* TRUE: probes act only after every actor has gone (hand-off scenarios)
          ActorKinds, \* the message kinds actors use (Kinds, or fewer for long histories of a few kinds)
          Extras      \* which of the optional environment steps the histories contain: subset of {"vanish", "reap", "ldown"}

VARIABLE hist

gvars == <<vars, hist>>

InternalEnabled ==
  \E c \in Clients :
     \/ pc[c] \in {"fwd", "cleanup"}
     \/ pc[c] = "wait" /\ \E s \in Conns : ENABLED Checkout(c, s)

Settled == hist # <<>> /\ hist[Len(hist)].op = "state"
Steps == Len(SelectSeq(hist, LAMBDA h : h.op # "state"))

Rec(op, c, k) == [op |-> op, c |-> c, k |-> k]
Ctl(op, c, k) == hist' = Append(hist, Rec(op, c, k))

MayAct == ~InternalEnabled /\ (hist = <<>> \/ Settled) /\ Steps < Depth
ProbeMay(c) == c \in Actors \/ ~ProbesLast \/ \A a \in Actors : pc[a] = "gone"

ProbeKinds == {"stmt", "begin", "commit"}

Controllable ==
  /\ MayAct
  /\ \E c \in Clients :
     /\ ProbeMay(c)
     /\ \/ Connect(c) /\ Ctl("connect", c, "")
        \/ \E k \in Kinds : ((c \in Actors /\ k \in ActorKinds) \/ k \in ProbeKinds) /\ SendFirst(c, k) /\ Ctl("send", c, k)
        \/ \E k \in Kinds : ((c \in Actors /\ k \in ActorKinds) \/ k \in ProbeKinds) /\ NextMsg(c, k) /\ Ctl("send", c, k)
        \/ \E k \in Kinds : "vanish" \in Extras /\ c \in Actors /\ SendFirstGone(c, k) /\ Ctl("send_vanish", c, k)
        \/ \E k \in Kinds : "vanish" \in Extras /\ c \in Actors /\ NextMsgGone(c, k) /\ Ctl("send_vanish", c, k)
        \/ "vanish" \in Extras /\ c \in Actors /\ pc[c] = "wait" /\ Vanish(c) /\ Ctl("vanish", c, "")
        \/ Leave(c) /\ Ctl("leave", c, "")
        \/ c \in Actors /\ pc[c] = "intx" /\ EndWithCleanup(c, TRUE) /\ Ctl("exit_in_tx", c, "")
        \/ c \in Actors /\ pc[c] = "intx" /\ EndWithCleanup(c, FALSE) /\ Ctl("idle_tx_timeout", c, "")
        \/ c \in Actors /\ EarlyReturn(c) /\ Ctl("early_return", c, "")
        \/ CheckoutTimeout(c) /\ Ctl("checkout_timeout", c, "")
        \/ c \in Actors /\ pc[c] \in {"idle", "intx", "wait", "gone"} /\ Cancel(c) /\ Ctl("cancel", c, "")
  /\ late' = late

\* A cancel request made while the server's listener is down for a moment (at most twice per history).
CancelWhileDown ==
  /\ "ldown" \in Extras /\ MayAct
  /\ Cardinality({i \in 1..Len(hist) : hist[i].op = "cancel_down"}) < 2
  /\ \E c \in Actors : pc[c] \in {"intx", "idle"} /\ CancelDown(c) /\ Ctl("cancel_down", c, "")

\* (deviation only) the retried request gets through at some later point of the history; not a step of the history
LateDelivery == MayAct /\ DeliverLate /\ UNCHANGED hist

\* The reaper: every idle connection is closed (the harness lets idle_timeout pass); at most once per history.
ReapAll ==
  /\ "reap" \in Extras /\ MayAct /\ (\E s \in Conns : alive[s] /\ idle[s])
  /\ ~\E i \in 1..Len(hist) : hist[i].op = "reap"
  /\ alive' = [s \in Conns |-> alive[s] /\ ~idle[s]] /\ idle' = [s \in Conns |-> FALSE]
  /\ UNCHANGED <<cvars, bTx, bCopy, bData, bad, dirty, tvars, cmap, viol, late>>
  /\ Ctl("reap", "", "")

Internal ==
  /\ \E c \in Clients :
       \/ \E s \in Conns : Checkout(c, s)
       \/ Forward(c) \/ ForwardVanished(c) \/ StatementTimeout(c)
       \/ pc[c] = "cleanup" /\ EndWithCleanup(c, FALSE)
  /\ UNCHANGED <<hist, late>>

\* bad: this behaviour breaks a PoolCore invariant (only possible with deviations enabled)
Bad == viol # {} \/ ~IdleIsClean \/ ~NoLeak \/ ~MapSound \/ ~MapComplete \/ ~ExclusiveHold \/ ~Bounded \/ ~HoldsOnlyInTx

Settle ==
  /\ ~InternalEnabled /\ hist # <<>> /\ ~Settled
  /\ hist' = Append(hist, [op |-> "state", c |-> "", k |-> "",
                           pcs |-> [c \in Clients |-> pc[c]],
                           holds |-> [c \in Clients |-> held[c] # NONE], bad |-> Bad,
                           \* (deviations only) clients inside a transaction that a cancel request would not find
                           unmapped |-> {c \in Clients : pc[c] = "intx" /\ held[c] # NONE /\ cmap[c] # held[c]}])
  /\ UNCHANGED vars

GNext == Controllable \/ ReapAll \/ CancelWhileDown \/ LateDelivery \/ Internal \/ Settle
GInit == Init /\ hist = <<>>
GSpec == GInit /\ [][GNext]_gvars

\* A history is complete when the step budget is used or nothing controllable is left.
Complete == Settled /\ (Steps >= Depth \/ ~ENABLED (Controllable \/ ReapAll \/ CancelWhileDown))
EverBad == \E i \in 1..Len(hist) : hist[i].op = "state" /\ hist[i].bad
Emit == Complete => PrintT(<<"SCENARIO", ToJson([steps |-> hist, bad |-> EverBad])>>)
=============================================================================
