---------------------------- MODULE Gen_PoolCore ----------------------------
(***************************************************************************)
(* Behaviour generator for PoolCore: the same actions, plus a history of    *)
(* the CONTROLLABLE steps (what clients and faults do).  Internal steps of  *)
(* the pooler (checkout, forward, release) take priority, so a history      *)
(* determines the behaviour up to the choice of connection slot; after the  *)
(* internal steps have settled the client program counters are appended as  *)
(* an expectation (which client has its reply, which one is still waiting   *)
(* for a connection).  TLC prints every maximal history once; the harness   *)
(* replays them on the real pgcat in lock-step.                              *)
(***************************************************************************)
EXTENDS PoolCore, Json

CONSTANTS Depth,      \* controllable steps per scenario
          Actors,     \* clients with the full alphabet
          Probes      \* clients that only connect, run plain statements, leave

VARIABLE hist

gvars == <<vars, hist>>

InternalEnabled ==
  \E c \in Clients :
     \/ pc[c] \in {"fwd", "cleanup"}
     \/ pc[c] = "wait" /\ \E s \in Conns : ENABLED Checkout(c, s)

Settled == hist # <<>> /\ hist[Len(hist)].op = "state"
Steps == Len(SelectSeq(hist, LAMBDA h : h.op # "state"))

Rec(op, c, k) == [op |-> op, c |-> c, k |-> k]
Ctl(op, c, k) == hist' = Append(hist, Rec(op, c, k))

MayAct == ~InternalEnabled /\ (hist = <<>> \/ Settled) /\ Steps < Depth

ProbeKinds == {"stmt", "begin", "commit"}

Controllable ==
  /\ MayAct
  /\ \E c \in Clients :
       \/ Connect(c) /\ Ctl("connect", c, "")
       \/ \E k \in Kinds : (c \in Actors \/ k \in ProbeKinds) /\ SendFirst(c, k) /\ Ctl("send", c, k)
       \/ \E k \in Kinds : (c \in Actors \/ k \in ProbeKinds) /\ NextMsg(c, k) /\ Ctl("send", c, k)
       \/ Leave(c) /\ Ctl("leave", c, "")
       \/ c \in Actors /\ pc[c] = "intx" /\ EndWithCleanup(c, TRUE) /\ Ctl("exit_in_tx", c, "")
       \/ c \in Actors /\ pc[c] = "intx" /\ EndWithCleanup(c, FALSE) /\ Ctl("idle_tx_timeout", c, "")
       \/ c \in Actors /\ EarlyReturn(c) /\ Ctl("early_return", c, "")
       \/ CheckoutTimeout(c) /\ Ctl("checkout_timeout", c, "")
       \/ c \in Actors /\ pc[c] \in {"idle", "intx", "wait"} /\ Cancel(c) /\ Ctl("cancel", c, "")

Internal ==
  /\ \E c \in Clients :
       \/ \E s \in Conns : Checkout(c, s)
       \/ Forward(c)
       \/ pc[c] = "cleanup" /\ EndWithCleanup(c, FALSE)
  /\ UNCHANGED hist

Settle ==
  /\ ~InternalEnabled /\ hist # <<>> /\ ~Settled
  /\ hist' = Append(hist, [op |-> "state", c |-> "", k |-> "",
                           pcs |-> [c \in Clients |-> pc[c]],
                           holds |-> [c \in Clients |-> held[c] # NONE]])
  /\ UNCHANGED vars

GNext == Controllable \/ Internal \/ Settle
GInit == Init /\ hist = <<>>
GSpec == GInit /\ [][GNext]_gvars

\* A history is complete when the step budget is used or nothing controllable is left.
Complete == Settled /\ (Steps >= Depth \/ ~ENABLED Controllable)
Emit == Complete => PrintT(<<"SCENARIO", ToJson(hist)>>)
=============================================================================
