SPECIFICATION GSpec
CONSTANTS
  Clients = {"A", "B"}
  Actors = {"A"}
  Probes = {"B"}
  Conns = {"s1", "s2"}
  NONE = NONE
  PoolSize = 1
  TxMode = TRUE
  Dev = {"reset_before_rollback"}
  MaxMsgs = 4
  Depth = 7
  ProbesLast = TRUE
INVARIANT Emit
