----------------------------- MODULE Gen_Mirror -----------------------------
(* Histories of what the harness can control: which server the next request goes to and of what kind, when a     *)
(* mirror changes behaviour, when a server connection is recycled, when the client pauses.  The mirror tasks'    *)
(* own steps interleave freely in the model and on the real pgcat alike.                                         *)
EXTENDS Mirror, Json
CONSTANTS s1, s2, m1, m2
TargetSplit == (m1 :> s1) @@ (m2 :> s2)
TargetSame == (m1 :> s1) @@ (m2 :> s1)
VARIABLE hist
gv == <<vars, hist>>
Kinds == {"simple", "tx", "ext", "big", "copy", "set", "burst"}
H(r) == hist' = Append(hist, r)
Same == UNCHANGED hist
Done == nreq = MaxReq /\ pc = "idle"
GNext == ~Done /\ (
  \/ \E s \in Servers, k \in Kinds : Start(s) /\ H([op |-> "req", a |-> ToString(s), b |-> k])
  \/ (Offer \/ Unblock \/ Write \/ Reply) /\ Same
  \/ MirrorStep /\ Same
  \/ \E m \in Mirrors, f \in Modes : Fault(m, f) /\ H([op |-> "fault", a |-> ToString(m), b |-> f])
  \/ \E s \in Servers : Recycle(s) /\ H([op |-> "recycle", a |-> ToString(s), b |-> ""])
  \/ pc = "idle" /\ hist # <<>> /\ hist[Len(hist)].op # "pause" /\ H([op |-> "pause", a |-> "", b |-> ""]) /\ UNCHANGED vars)
GInit == Init /\ hist = <<>>
GSpec == GInit /\ [][GNext]_gv
Emit == Done =>
          PrintT(<<"SCENARIO", ToJson([init |-> [m \in Mirrors |-> mode[m]], steps |-> hist])>>)
=============================================================================
