SPECIFICATION Spec
CONSTANT Dev = {"ok_before_check"}
INVARIANTS NoOkWithoutCredentials OnlyValidAdmitted AdmittedOnlyByRule
