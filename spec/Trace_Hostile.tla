---------------------------- MODULE Trace_Hostile ----------------------------
(* One record per hostile scenario run against the real pgcat: what the canary client and the process experienced. *)
(* C11 (Hostile.tla, OnlyTheSenderIsHurt): the pooler stays up, the canary's transactions succeed with its own,    *)
(* clean results while the sender is connected (unless the sender legitimately holds the only connection) and      *)
(* after it left, and the whole capacity is available afterwards.                                                   *)
EXTENDS Hostile, IOUtils, TLCExt
Rec == ndJsonDeserialize(IOEnv.TRACE)
VARIABLE l
E == Rec[l]
Report(kind, detail) == PrintT(<<"VIOL", ToJson([sc |-> E.sc, line |-> l, kind |-> kind, detail |-> detail])>>)
Flag(c, kind, detail) == IF c THEN Report(kind, detail) ELSE TRUE
D == [steps |-> E.steps, why |-> E.why]
MaxGrowthMb == 256
Step ==
  /\ l <= Len(Rec) /\ l' = l + 1 /\ UNCHANGED hvars
  /\ Flag(~E.alive, "pooler_terminated", D)
  /\ Flag(E.alive /\ ~E.during_ok, "other_client_hurt_while_sender_connected", D)
  /\ Flag(E.alive /\ ~E.after_ok, "other_client_blocked_after_sender_left", D)
  /\ Flag(E.alive /\ ~E.after_own, "other_client_got_foreign_result", D)
  /\ Flag(E.alive /\ ~E.after_clean, "connection_handed_over_unclean", D)
  /\ Flag(E.alive /\ E.after_ok /\ ~E.capacity_ok, "server_connection_out_of_service", D)
  \* the sender's few bytes (every case sends less than 1 kB) made the pooler take hundreds of megabytes: on a machine with
  \* less memory or under load this is what blocks the other clients or gets the pooler killed
  /\ Flag(E.rss_growth_mb > MaxGrowthMb, "pooler_memory_taken_by_a_few_bytes", [steps |-> E.steps, rss_growth_mb |-> E.rss_growth_mb])
TInit == HInit /\ l = 1
TSpec == TInit /\ [][Step]_<<hvars, l>>
Accepted == /\ PrintT(<<"MATCHED", ToString(TLCGet("stats").diameter - 1)>>)
            /\ TLCGet("stats").diameter - 1 = Len(Rec)
=============================================================================
