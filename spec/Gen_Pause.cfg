SPECIFICATION GSpec
CONSTANTS
  Clients = {"A", "B"}
  MaxOps = 10
  Dev = {}
  Depth = 5
INVARIANT Emit
