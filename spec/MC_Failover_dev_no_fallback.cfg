SPECIFICATION Spec
CONSTANTS
  Replicas = {"r1", "r2"}
  HasPrimary = TRUE
  BanTime = 2
  MaxOps = 5
  Dev = {"no_fallback"}
INVARIANTS NoViolation PrimaryNeverBanned
