----------------------------- MODULE StatsApa ------------------------------
(***************************************************************************)
(* Unbounded check of the Stats design with Apalache: IndInv holds          *)
(* initially and is preserved by every step, for counters of any size and   *)
(* histories of any length (TLC covers MaxOps steps).                       *)
(*   apalache-mc check --cinit=ConstInit --init=Init    --inv=IndInv --length=0 StatsApa.tla *)
(*   apalache-mc check --cinit=ConstInit --init=IndInit --inv=IndInv --length=1 StatsApa.tla *)
(***************************************************************************)
EXTENDS Stats

ConstInit == Clients = {"c1", "c2", "c3"} /\ MaxOps = 1000000 /\ Dev = {}
\* negative control: COPY counted twice breaks the induction
ConstInitCopyTwice == Clients = {"c1", "c2", "c3"} /\ MaxOps = 1000000 /\ Dev = {"copy_counts_twice"}

States == {"none", "idle", "active", "waiting"}
TypeOK ==
  /\ conn \in SUBSET Clients /\ reg \in SUBSET Clients
  /\ state \in [Clients -> States] /\ rstate \in [Clients -> States]
  /\ q \in [Clients -> Int] /\ x \in [Clients -> Int] /\ rq \in [Clients -> Int] /\ rx \in [Clients -> Int]
  /\ ghosts \in Int /\ nops \in 0..MaxOps

IndInv == TypeOK /\ RowsAreClients /\ StatesTrue /\ CountsTrue
IndInit == IndInv
=============================================================================
