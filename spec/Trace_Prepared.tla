--------------------------- MODULE Trace_Prepared ---------------------------
(* For every recorded Parse..Sync batch the direct-connection reference (Ref of Prepared.tla) says which      *)
(* statements must have been executed, in which order, and whether an error is due; the record says what the  *)
(* mock backends executed and what the client received.                                                        *)
EXTENDS Prepared, Json, IOUtils, TLCExt
Rec == ndJsonDeserialize(IOEnv.TRACE)
VARIABLES l, sc, seen,
          off   \* clients whose session left the domain of the reference (client error); no expectations until they reconnect
tv == <<vars, l, sc, seen, off>>
E == Rec[l]
Report(kind, detail) ==
  IF kind \in seen THEN TRUE
  ELSE PrintT(<<"VIOL", ToJson([sc |-> sc, line |-> l, kind |-> kind, detail |-> detail])>>)
Flag(c, kind, detail) == IF c THEN Report(kind, detail) ELSE TRUE
K(pairs) == UNION {IF p[1] THEN {p[2]} ELSE {} : p \in pairs}
TInit == Init /\ l = 1 /\ sc = 0 /\ seen = {} /\ off = {}
Reset == /\ E.ev = "reset"
         /\ dref' = [c \in Clients |-> [n \in Names |-> NONE]] /\ sc' = E.sc /\ seen' = {} /\ off' = {}
         /\ UNCHANGED <<cmap, bel, reg, truth, nb, viol>>
ItemsOf(e) == [i \in 1..Len(e.items) |-> e.items[i]]
Batch ==
  /\ E.ev = "batch"
  /\ LET b == ItemsOf(E)
         rf0 == Ref(b, 1, dref[E.c], FALSE, <<>>)
         rf == IF E.c \in off THEN [rf0 EXCEPT !.oos = TRUE] ELSE rf0
         hasBad == \E i \in 1..Len(b) : b[i].k = "P" /\ b[i].q = BAD
         obs == [i \in 1..Len(E.exec) |-> E.exec[i]]
         v1 == ~rf.oos /\ obs # rf.ex
         v2 == ~rf.oos /\ ~hasBad /\ E.nerr > 0
         v3 == ~rf.oos /\ hasBad /\ E.nerr = 0
         v4 == ~rf.oos /\ E.closed
     IN /\ Flag(v1, "executed_statements_differ", [client |-> E.c, items |-> E.items, expected |-> rf.ex, executed |-> obs,
                                                   cache |-> E.cache, step |-> E.i])
        /\ Flag(v2, "spurious_error", [client |-> E.c, items |-> E.items, errors |-> E.errors, cache |-> E.cache, step |-> E.i])
        /\ Flag(v3, "missing_error", [client |-> E.c, items |-> E.items, step |-> E.i])
        /\ Flag(v4, "client_disconnected", [client |-> E.c, items |-> E.items, errors |-> E.errors, step |-> E.i])
        /\ seen' = seen \cup K({<<v1, "executed_statements_differ">>, <<v2, "spurious_error">>, <<v3, "missing_error">>,
                                <<v4, "client_disconnected">>})
        /\ dref' = [dref EXCEPT ![E.c] = IF E.closed THEN [n \in Names |-> NONE] ELSE IF rf.oos THEN @ ELSE rf.m]
        /\ off' = IF E.closed THEN off \ {E.c} ELSE IF rf.oos THEN off \cup {E.c} ELSE off
  /\ UNCHANGED <<cmap, bel, reg, truth, nb, viol, sc>>
\* a simple-protocol PREPARE by a client (the pooler then cleans the connection with DEALLOCATE ALL): nothing changes for
\* the protocol-level statements the client holds - a direct connection would never have lost them
SqlPrep == /\ E.ev = "sqlprep"
           /\ Flag(~E.ok, "spurious_error", [client |-> E.c, items |-> <<>>, errors |-> E.errors, cache |-> E.cache, step |-> E.i])
           /\ seen' = seen \cup K({<<~E.ok, "spurious_error">>})
           /\ UNCHANGED <<vars, sc, off>>
Step == /\ l <= Len(Rec) /\ l' = l + 1 /\ (Reset \/ Batch \/ SqlPrep)
TSpec == TInit /\ [][Step]_tv
Accepted == /\ PrintT(<<"MATCHED", ToString(TLCGet("stats").diameter - 1)>>)
            /\ TLCGet("stats").diameter - 1 = Len(Rec)
=============================================================================
