----------------------------- MODULE Gen_Router -----------------------------
(* Enumerates every session of Depth routing steps (commands and statement   *)
(* classes) under every pool configuration; one line per session.            *)
EXTENDS Router, Json
CONSTANTS Depth, GenClasses, GenKeys, GenShows
VARIABLE hist
gvars == <<rvars, hist>>
Step(r) == hist' = Append(hist, r)
GNext ==
  /\ Len(hist) < Depth
  /\ \/ \E w \in RoleWords : SetServerRole(w) /\ Step([op |-> "set_role", arg |-> w])
     \/ \E w \in PrWords : SetPrimaryReads(w) /\ Step([op |-> "set_pr", arg |-> w])
     \/ \E c \in GenClasses : Stmt(c) /\ Step([op |-> "stmt", arg |-> c])
     \/ \E k \in GenKeys : SetShard(k) /\ Step([op |-> "set_shard", arg |-> ToString(k)])
     \/ \E o \in GenShows : UNCHANGED rvars /\ Step([op |-> o, arg |-> ""])
GInit == RInit /\ hist = <<>>
GSpec == GInit /\ [][GNext]_gvars
Emit == Len(hist) = Depth => PrintT(<<"SCENARIO", ToJson([cfg |-> cfg, steps |-> hist])>>)
=============================================================================
