SPECIFICATION Spec
