------------------------------- MODULE Relay -------------------------------
(***************************************************************************)
(* How pgcat relays one reply stream from a server to a client:             *)
(* Server::recv (src/server.rs 905-1115) buffers backend messages and       *)
(* returns on ReadyForQuery, on a DataRow/CopyData once the buffer holds at *)
(* least T bytes, on CopyInResponse and on CopyOutResponse;                 *)
(* send_and_receive_loop (src/client.rs) calls it while data_available;     *)
(* the CopyDone/CopyFail arm reads the rest of the reply.                   *)
(* A message is <<kind, size in bytes>>.                                    *)
(*   T RowDescription  D DataRow  C CommandComplete  E ErrorResponse        *)
(*   I EmptyQuery  N Notice  S ParameterStatus  G CopyInResponse            *)
(*   H CopyOutResponse  d CopyData  c CopyDone  Z ReadyForQuery             *)
(*   1 2 3 t n s  ParseComplete BindComplete CloseComplete ParameterDesc    *)
(*                NoData PortalSuspended                                    *)
(***************************************************************************)
EXTENDS Integers, Sequences, TLC

CONSTANTS T,        \* buffer threshold (8196)
          Dev,      \* deviations: "copydone_single_recv", "copyin_keeps_da", "single_write"
          Window    \* bytes the socket of a peer that is not reading takes in one write

Sz(m) == m[2]

\* ---- Server::recv(): consume messages until a break condition.
\* Returns [rest, chunk (messages returned), da (data_available), copy (in_copy_mode), blocked]
RECURSIVE Recv(_, _, _, _, _)
Recv(rest, chunk, blen, da, copy) ==
  IF rest = <<>> THEN [rest |-> rest, chunk |-> chunk, da |-> da, copy |-> copy, blocked |-> TRUE]
  ELSE LET m == Head(rest) r == Tail(rest) ch == Append(chunk, m) bl == blen + Sz(m) k == m[1] IN
    CASE k = "Z" -> [rest |-> r, chunk |-> ch, da |-> FALSE, copy |-> copy, blocked |-> FALSE]
      [] k = "E" -> Recv(r, ch, bl, da, FALSE)
      [] k = "C" -> Recv(r, ch, bl, da, FALSE)
      [] k = "D" -> IF bl >= T THEN [rest |-> r, chunk |-> ch, da |-> TRUE, copy |-> copy, blocked |-> FALSE]
                    ELSE Recv(r, ch, bl, TRUE, copy)
      \* CopyInResponse: the server now waits for the client.  Design: data_available is cleared so the
      \* loop hands control back to the client.  Deviation copyin_keeps_da: the flag survives and the
      \* loop reads again although nothing can arrive before the client's CopyDone (blocked).
      [] k = "G" -> IF "copyin_keeps_da" \in Dev /\ da
                    THEN [rest |-> r, chunk |-> ch, da |-> da, copy |-> TRUE, blocked |-> TRUE]
                    ELSE [rest |-> r, chunk |-> ch, da |-> FALSE, copy |-> TRUE, blocked |-> FALSE]
      [] k = "H" -> [rest |-> r, chunk |-> ch, da |-> TRUE, copy |-> TRUE, blocked |-> FALSE]
      [] k = "d" -> IF bl >= T THEN [rest |-> r, chunk |-> ch, da |-> da, copy |-> copy, blocked |-> FALSE]
                    ELSE Recv(r, ch, bl, da, copy)
      [] OTHER -> Recv(r, ch, bl, da, copy)

ChunkBytes(ch) == LET RECURSIVE Sum(_) Sum(s) == IF s = <<>> THEN 0 ELSE Sz(Head(s)) + Sum(Tail(s)) IN Sum(ch)

\* ---- write_all_flush: what recv() returned is written to the client - all of it, however often the socket has to be
\* written to while the client is slow to read.  Deviation single_write: one write() only; what does not fit the peer's
\* window is dropped and the loop goes on as if it had been sent.
RECURSIVE Fit(_, _)
Fit(ch, room) == IF ch = <<>> \/ Sz(Head(ch)) > room THEN <<>> ELSE <<Head(ch)>> \o Fit(Tail(ch), room - Sz(Head(ch)))
Written(ch) == IF "single_write" \in Dev THEN Fit(ch, Window) ELSE ch

\* ---- send_and_receive_loop: recv / write to the client until !data_available.
\* out: messages written to the client; lens: byte length of every recv() return
RECURSIVE Loop(_, _, _, _, _)
Loop(rest, out, lens, da, copy) ==
  LET r == Recv(rest, <<>>, 0, da, copy) IN
  IF r.blocked THEN [rest |-> r.rest, out |-> out \o Written(r.chunk), lens |-> Append(lens, ChunkBytes(r.chunk)), da |-> r.da,
                     copy |-> r.copy, blocked |-> TRUE]
  ELSE IF r.da THEN Loop(r.rest, out \o Written(r.chunk), Append(lens, ChunkBytes(r.chunk)), r.da, r.copy)
  ELSE [rest |-> r.rest, out |-> out \o Written(r.chunk), lens |-> Append(lens, ChunkBytes(r.chunk)), da |-> r.da,
        copy |-> r.copy, blocked |-> FALSE]

\* ---- One whole request.  After the first loop the reply may have stopped at CopyInResponse
\* (G seen, no Z yet): the client then sends CopyData.. CopyDone and the pooler reads the rest.
\* Design: it loops like send_and_receive_loop.  Deviation: one recv() only.
RECURSIVE Relay(_, _, _, _, _)
Relay(rest, out, lens, da, copy) ==
  LET a == Loop(rest, out, lens, da, copy) IN
  IF a.blocked THEN a
  ELSE IF a.copy /\ a.rest # <<>> THEN
         IF "copydone_single_recv" \in Dev
         THEN LET b == Recv(a.rest, <<>>, 0, a.da, a.copy) IN
              [rest |-> b.rest, out |-> a.out \o Written(b.chunk), lens |-> Append(a.lens, ChunkBytes(b.chunk)),
               da |-> b.da, copy |-> b.copy, blocked |-> b.blocked]
         ELSE Relay(a.rest, a.out, a.lens, a.da, a.copy)      \* CopyDone sent: keep reading
       ELSE a

RelayAll(stream) == Relay(stream, <<>>, <<>>, FALSE, FALSE)

\* C03 on one stream: everything delivered, in order, nothing left over, loop terminated.
Complete(stream) ==
  LET r == RelayAll(stream) IN ~r.blocked /\ r.out = stream /\ r.rest = <<>> /\ ~r.da

-----------------------------------------------------------------------------
\* Grammar of the reply to one simple query (possibly multi-statement) or one Sync batch.
VARIABLES stream, gstate, done
rlvars == <<stream, gstate, done>>
CONSTANTS MaxLen, Small, Big      \* message sizes used by the generator: Small < T <= Big

Emit(m, g) == stream' = Append(stream, m) /\ gstate' = g /\ UNCHANGED done
NoCopyInYet == \A i \in 1..Len(stream) : stream[i][1] # "G"

Gen ==
  /\ ~done /\ Len(stream) < MaxLen
  /\ \/ gstate = "top" /\
          (\/ Emit(<<"T", Small>>, "rows") \/ Emit(<<"C", Small>>, "top") \/ Emit(<<"I", 5>>, "top")
           \/ Emit(<<"N", Small>>, "top") \/ Emit(<<"S", Small>>, "top")
           \/ Emit(<<"G", 8>>, "cin") \/ Emit(<<"H", 8>>, "cout") \/ Emit(<<"E", Small>>, "err")
           \/ Emit(<<"1", 5>>, "top") \/ Emit(<<"2", 5>>, "top") \/ Emit(<<"3", 5>>, "top")
           \/ Emit(<<"t", Small>>, "top") \/ Emit(<<"n", 5>>, "top"))
     \/ gstate = "rows" /\ (\E z \in {Small, Big} : Emit(<<"D", z>>, "rows"))
     \/ gstate = "rows" /\ (Emit(<<"C", Small>>, "top") \/ Emit(<<"E", Small>>, "err") \/ Emit(<<"N", Small>>, "rows")
                             \/ Emit(<<"s", 5>>, "top"))
     \/ gstate = "cin" /\ (Emit(<<"C", Small>>, "top") \/ Emit(<<"E", Small>>, "err"))
     \/ gstate = "cout" /\ ((\E z \in {Small, Big} : Emit(<<"d", z>>, "cout")) \/ Emit(<<"c", 5>>, "coutdone")
                             \/ Emit(<<"E", Small>>, "err"))
     \/ gstate = "coutdone" /\ Emit(<<"C", Small>>, "top")
Finish == /\ ~done /\ gstate \in {"top", "err"} /\ stream # <<>>
          /\ stream' = Append(stream, <<"Z", 6>>) /\ done' = TRUE /\ UNCHANGED gstate
RInit == stream = <<>> /\ gstate = "top" /\ done = FALSE
RNext == Gen \/ Finish
RSpec == RInit /\ [][RNext]_rlvars

AllComplete == done => Complete(stream)
=============================================================================
