SPECIFICATION Spec
CONSTANTS
  Clients = {c1, c2}
  MaxOps = 6
  Dev = {"cancel_registers_client"}
INVARIANTS RowsAreClients StatesTrue CountsTrue
