SPECIFICATION Spec
CONSTANTS
  s1 = s1
  s2 = s2
  m1 = m1
  m2 = m2
  Servers = {s1, s2}
  Mirrors = {m1, m2}
  Target <- TargetSplit
  Cap = 2
  MaxReq = 3
  MaxEnv = 1
  Dev = {}
INVARIANTS TypeOK MirrorGetsCopies ClientUnaffected NeverWaits Bounded
PROPERTIES Progress
