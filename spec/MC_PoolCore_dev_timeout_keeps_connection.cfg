SPECIFICATION Spec
CONSTANTS
  Clients = {c1, c2}
  Conns = {s1, s2}
  NONE = NONE
  PoolSize = 1
  TxMode = TRUE
  Dev = {"timeout_keeps_connection"}
  MaxMsgs = 3
INVARIANTS TypeOK ExclusiveHold CleanHandoff IdleIsClean Bounded NoLeak MapSound MapComplete BeliefSound HoldsOnlyInTx
