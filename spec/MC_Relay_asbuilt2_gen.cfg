SPECIFICATION RSpec
CONSTANTS
  T = 8196
  Window = 8196
  Dev = {"copyin_keeps_da"}
  MaxLen = 6
  Small = 40
  Big = 9000
INVARIANT AllComplete
