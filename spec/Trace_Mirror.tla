---------------------------- MODULE Trace_Mirror ----------------------------
(* What the mock servers received, cut into frontend messages (each distinct message content has an id), and what  *)
(* the client saw with and without mirrors, checked against Mirror.tla's invariants at byte level:                  *)
(*   MirrorGetsCopies   the stream of every mirror connection is a concatenation of WHOLE buffers that pgcat wrote  *)
(*                      to ONE connection of the mirror's own server, in order, each at most once                   *)
(*   ClientUnaffected   every reply is the same with and without mirrors                                           *)
(*   NeverWaits         no request takes longer with mirrors than without (beyond MaxExtraMs of scheduling noise)   *)
(* `send` records carry, per server connection, the list of buffers (Server::send calls, from the server_send hook  *)
(* lengths applied to the bytes the mock received); `mstream` records carry one mirror connection's messages.       *)
EXTENDS Integers, Sequences, FiniteSets, TLC, Json, IOUtils, TLCExt
Rec == ndJsonDeserialize(IOEnv.TRACE)
MaxExtraMs == 300
SrvNames == {"s1", "s2"}
VARIABLES l, sc, seen, target, chunks
tv == <<l, sc, seen, target, chunks>>
E == Rec[l]
Report(kind, detail) ==
  IF kind \in seen THEN TRUE
  ELSE PrintT(<<"VIOL", ToJson([sc |-> sc, line |-> l, kind |-> kind, detail |-> detail])>>)
Flag(c, kind, detail) == IF c THEN Report(kind, detail) ELSE TRUE
K(pairs) == UNION {IF p[1] THEN {p[2]} ELSE {} : p \in pairs}
NoChunks == [s \in SrvNames |-> <<>>]
TInit == l = 1 /\ sc = 0 /\ seen = {} /\ target = <<>> /\ chunks = NoChunks
Reset == /\ E.ev = "reset" /\ sc' = E.sc /\ seen' = {} /\ target' = E.target /\ chunks' = NoChunks
Send == /\ E.ev = "send" /\ chunks' = [chunks EXCEPT ![E.s] = Append(@, E.chunks)]
        /\ UNCHANGED <<sc, seen, target>>

\* ---- positions in the buffers of server s: <<connection, buffer, messages of that buffer already matched>>
\* A buffer the server never read (it had closed the connection) is known by its length only: <<-length>>.
Wild(s, c, i) == chunks[s][c][i][1] < 0
Norm(s, c, i, j) == IF j = (IF Wild(s, c, i) THEN -chunks[s][c][i][1] ELSE Len(chunks[s][c][i])) THEN <<c, i + 1, 0>> ELSE <<c, i, j>>
StepPos(s, p, id, sz) ==
  LET c == p[1] i == p[2] j == p[3] IN
  IF j > 0
  THEN IF Wild(s, c, i)
       THEN IF j + sz <= -chunks[s][c][i][1] THEN {Norm(s, c, i, j + sz)} ELSE {}
       ELSE IF chunks[s][c][i][j + 1] = id THEN {Norm(s, c, i, j + 1)} ELSE {}
  ELSE {Norm(s, c, i2, 1) : i2 \in {x \in i..Len(chunks[s][c]) : ~Wild(s, c, x) /\ chunks[s][c][x][1] = id}}
       \cup {Norm(s, c, i2, sz) : i2 \in {x \in i..Len(chunks[s][c]) : Wild(s, c, x) /\ sz <= -chunks[s][c][x][1]}}
Adv(s, P, id, sz) == UNION {StepPos(s, p, id, sz) : p \in P}
RECURSIVE Fold(_, _, _, _, _)
\* returns <<positions after the last message that could be matched, index of the first message that could not (0 = all)>>
Fold(s, P, ids, sizes, n) ==
  IF n > Len(ids) THEN <<P, 0>>
  ELSE LET Q == Adv(s, P, ids[n], sizes[n]) IN IF Q = {} THEN <<P, n>> ELSE Fold(s, Q, ids, sizes, n + 1)
Start(s) == {<<c, 1, 0>> : c \in DOMAIN chunks[s]}
AllIds(s) == UNION {UNION {{chunks[s][c][i][j] : j \in DOMAIN chunks[s][c][i]} : i \in DOMAIN chunks[s][c]} : c \in DOMAIN chunks[s]}

MStream ==
  /\ E.ev = "mstream"
  /\ LET s == target[E.m]
         r == Fold(s, Start(s), E.ids, E.sizes, 1)
         stuck == r[2] # 0
         bad == IF stuck THEN E.ids[r[2]] ELSE 0
         foreign == stuck /\ \E o \in SrvNames \ {s} : bad \in AllIds(o)
         known == stuck /\ bad \in AllIds(s)
         v1 == foreign /\ ~known
         v2 == stuck /\ ~v1 /\ ~known
         v3 == stuck /\ known          \* right server, but out of order, repeated, or not from a buffer boundary
         v4 == ~stuck /\ E.whole /\ E.ids # <<>> /\ ~\E p \in r[1] : p[3] = 0
         \* pgcat closed the connection of a mirror that never misbehaved between COPY .. FROM STDIN and CopyDone
         v5 == E.cut_in_copy
     IN /\ Flag(v1, "mirror_got_another_servers_traffic", [m |-> E.m, conn |-> E.k, at |-> r[2], text |-> E.texts])
        /\ Flag(v2, "mirror_got_what_its_server_never_got", [m |-> E.m, conn |-> E.k, at |-> r[2], text |-> E.texts])
        /\ Flag(v3, "mirror_traffic_not_whole_requests_in_order", [m |-> E.m, conn |-> E.k, at |-> r[2], text |-> E.texts])
        /\ Flag(v4, "mirror_got_part_of_a_request", [m |-> E.m, conn |-> E.k, text |-> E.texts])
        /\ Flag(v5, "mirror_copy_split_across_connections", [m |-> E.m, conn |-> E.k, text |-> E.texts])
        /\ seen' = seen \cup K({<<v5, "mirror_copy_split_across_connections">>, <<v1, "mirror_got_another_servers_traffic">>, <<v2, "mirror_got_what_its_server_never_got">>,
                                <<v3, "mirror_traffic_not_whole_requests_in_order">>, <<v4, "mirror_got_part_of_a_request">>})
  /\ UNCHANGED <<sc, target, chunks>>

Reply ==
  /\ E.ev = "reply"
  /\ LET v1 == ~E.same
         v2 == E.extra_ms > MaxExtraMs
     IN /\ Flag(v1, "reply_differs_with_mirrors", [step |-> E.i, op |-> E.op, with |-> E.with, without |-> E.without])
        /\ Flag(v2, "request_waited_for_mirror", [step |-> E.i, op |-> E.op, extra_ms |-> E.extra_ms, ms_with |-> E.ms_with,
                                                  ms_without |-> E.ms_without])
        /\ seen' = seen \cup K({<<v1, "reply_differs_with_mirrors">>, <<v2, "request_waited_for_mirror">>})
  /\ UNCHANGED <<sc, target, chunks>>

Step == l <= Len(Rec) /\ l' = l + 1 /\ (Reset \/ Send \/ MStream \/ Reply)
TSpec == TInit /\ [][Step]_tv
Accepted == /\ PrintT(<<"MATCHED", ToString(TLCGet("stats").diameter - 1)>>)
            /\ TLCGet("stats").diameter - 1 = Len(Rec)
=============================================================================
