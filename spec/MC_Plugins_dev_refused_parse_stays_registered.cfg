SPECIFICATION PSpec
CONSTANTS
  PluginsOn = TRUE
  Dev = {"refused_parse_stays_registered"}
  MaxMsgs = 4
INVARIANTS NeverForwarded NothingBlockedWhenOff
