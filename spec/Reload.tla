------------------------------- MODULE Reload -------------------------------
(***************************************************************************)
(* Live reload (src/config.rs parse / reload_config, src/pool.rs            *)
(* from_config and POOLS, src/client.rs get_pool at every transaction).     *)
(* One pool name under test ("db1") plus an untouched control pool.  A       *)
(* definition is a value of Defs; "absent" means the pool is not configured; *)
(* the file can also be syntactically or semantically invalid.               *)
(*   file    - contents of the configuration file                            *)
(*   config  - CONFIG (what get_config() returns)                            *)
(*   pools   - POOLS: definition and object identity of db1's pool           *)
(*   client  - per client: the pool object its open transaction runs on      *)
(***************************************************************************)
EXTENDS Integers, Sequences, FiniteSets, TLC

\* (the @type comments are for Apalache, which proves the invariants inductive for histories of any length: ReloadApa.tla)
CONSTANTS
  \* @type: Set(Str);
  Clients,
  \* @type: Set(Str);
  Defs,
  \* @type: Int;
  MaxOps,
  \* @type: Set(Str);
  Dev
\* Dev: "invalid_file_applied"    - a file that fails validation still replaces CONFIG / POOLS
\*      "unchanged_pool_recreated" - every reload builds new pool objects even for unchanged definitions
\*      "tx_follows_reload"        - a transaction in progress is moved to the new pool object
\*      "stale_pool_after_reload"  - clients keep the pool object they resolved at connect time
\*      "removed_pool_falls_back"  - a client of a removed pool is served by the remaining (control) pool
\*      "parked_tx_uses_old_pool"  - a transaction held by PAUSE runs, after RESUME, on the pool object it saw when it was held

\* "unreachable": a well-formed file whose db1 servers cannot be reached while it asks for connections to be opened at
\* once (min_pool_size): building the pool fails.  What is in effect afterwards is not specified (the definition is then
\* called "unreachable" here and nothing is expected of transactions) - but the next reload must work as usual.
Files == Defs \cup {"absent", "syntax_error", "semantic_error", "unreachable"}
Valid(f) == f \in Defs \cup {"absent", "unreachable"}

VARIABLES
  \* @type: Str;
  file,
  \* @type: Str;
  config,
  \* @type: { def: Str, obj: Int };
  pools,
  \* @type: Int;
  nextObj,
  \* @type: Str;
  reloadPc,
  \* @type: Str;
  staged,
  \* client -> -1 (no transaction) or the object id its transaction runs on (-2 = the control pool)
  \* @type: Str -> Int;
  tx,
  \* client -> definition that object had
  \* @type: Str -> Str;
  txdef,
  \* client -> pool object resolved at connect time (only used by a deviation)
  \* @type: Str -> Int;
  cobj,
  \* @type: Int;
  nops,
  \* @type: Set(Str);
  viol,
  \* the last VALID file contents a reload was asked to load (what must be in effect)
  \* @type: Str;
  applied,
  \* PAUSE is in force for db1
  \* @type: Bool;
  paused,
  \* client -> -1 (not held) or the pool object it saw when PAUSE held its new transaction
  \* @type: Str -> Int;
  parked

vars == <<file, config, pools, nextObj, reloadPc, staged, tx, txdef, cobj, nops, viol, applied, paused, parked>>

Init == /\ file = "A" /\ config = "A" /\ pools = [def |-> "A", obj |-> 0] /\ nextObj = 1
        /\ reloadPc = "idle" /\ staged = "A"
        /\ tx = [c \in Clients |-> -1] /\ txdef = [c \in Clients |-> "none"] /\ cobj = [c \in Clients |-> 0]
        /\ nops = 0 /\ viol = {} /\ applied = "A" /\ paused = FALSE /\ parked = [c \in Clients |-> -1]

\* (while PAUSE is in force the pool is not removed: RESUME could not address it any more - outside this model)
WriteFile(f) == /\ reloadPc = "idle" /\ nops < MaxOps /\ nops' = nops + 1 /\ f \in Files /\ f # file /\ file' = f
                /\ (paused => f # "absent")
                /\ UNCHANGED <<config, pools, nextObj, reloadPc, staged, tx, txdef, cobj, viol, applied, paused, parked>>

\* RELOAD / SIGHUP, step 1: parse + validate; an invalid file stops here.
ReloadParse ==
  /\ reloadPc = "idle" /\ nops < MaxOps /\ nops' = nops + 1
  /\ IF Valid(file) \/ "invalid_file_applied" \in Dev
     THEN /\ staged' = IF Valid(file) THEN file ELSE "absent"
          /\ config' = staged' /\ reloadPc' = "apply"
     ELSE UNCHANGED <<staged, config, reloadPc>>
  /\ applied' = IF Valid(file) THEN file ELSE applied
  /\ UNCHANGED <<file, pools, nextObj, tx, txdef, cobj, viol, paused, parked>>

\* step 2: from_config - reuse the pool object when the definition hash is unchanged, else create; store POOLS
ReloadApply ==
  /\ reloadPc = "apply"
  /\ IF staged = pools.def /\ "unchanged_pool_recreated" \notin Dev
     THEN UNCHANGED <<pools, nextObj>>
     ELSE pools' = [def |-> staged, obj |-> nextObj] /\ nextObj' = nextObj + 1
  /\ reloadPc' = "idle"
  /\ UNCHANGED <<file, config, staged, tx, txdef, cobj, nops, viol, applied, paused, parked>>

\* A client starts a transaction: the pool is looked up by name now.
\* PAUSE / RESUME of db1 (admin console).  A transaction that would start while paused is held (wait_paused) and
\* starts when RESUME arrives - on the pool that is configured THEN (the pool is looked up after waking).
Pause == /\ ~paused /\ reloadPc = "idle" /\ pools.def # "absent" /\ nops < MaxOps /\ nops' = nops + 1 /\ paused' = TRUE
         /\ UNCHANGED <<file, config, pools, nextObj, reloadPc, staged, tx, txdef, cobj, viol, applied, parked>>
Park(c) == /\ paused /\ tx[c] = -1 /\ parked[c] = -1 /\ nops < MaxOps /\ nops' = nops + 1
           /\ parked' = [parked EXCEPT ![c] = pools.obj]
           /\ UNCHANGED <<file, config, pools, nextObj, reloadPc, staged, tx, txdef, cobj, viol, applied, paused>>
Resume ==
  /\ paused /\ reloadPc = "idle" /\ pools.def # "absent" /\ nops < MaxOps /\ nops' = nops + 1 /\ paused' = FALSE
  /\ LET held == {c \in Clients : parked[c] # -1}
         stale == {c \in held : "parked_tx_uses_old_pool" \in Dev /\ parked[c] # pools.obj}
     IN /\ tx' = [c \in Clients |-> IF c \in held THEN (IF c \in stale THEN parked[c] ELSE pools.obj) ELSE tx[c]]
        /\ txdef' = [c \in Clients |-> IF c \in held /\ c \notin stale THEN pools.def ELSE txdef[c]]
        /\ viol' = IF stale # {} THEN viol \cup {"old_definition_after_reload"} ELSE viol
  /\ parked' = [c \in Clients |-> -1]
  /\ UNCHANGED <<file, config, pools, nextObj, reloadPc, staged, cobj, applied>>

TxStart(c) ==
  /\ tx[c] = -1 /\ ~paused /\ parked[c] = -1 /\ nops < MaxOps /\ nops' = nops + 1
  /\ LET o == IF "stale_pool_after_reload" \in Dev THEN cobj[c] ELSE pools.obj
         d == IF "stale_pool_after_reload" \in Dev THEN txdef[c] ELSE pools.def
     IN IF pools.def = "absent" /\ "stale_pool_after_reload" \notin Dev
        THEN /\ tx' = [tx EXCEPT ![c] = IF "removed_pool_falls_back" \in Dev THEN -2 ELSE -1]
             /\ viol' = IF "removed_pool_falls_back" \in Dev THEN viol \cup {"served_by_other_pool"} ELSE viol
             /\ UNCHANGED txdef
        ELSE /\ tx' = [tx EXCEPT ![c] = pools.obj] /\ txdef' = [txdef EXCEPT ![c] = pools.def]
             /\ viol' = IF reloadPc = "idle" /\ pools.def # config THEN viol \cup {"old_definition_after_reload"} ELSE viol
  /\ UNCHANGED <<file, config, pools, nextObj, reloadPc, staged, cobj, applied, paused, parked>>

\* A one-statement transaction on a table that definition "P" guards with the table_access plugin (same servers as "A"):
\* whether it is refused depends on the definition in effect when it starts.  No model state changes; the expectation is
\* evaluated by the trace specification.
Probe(c) == /\ tx[c] = -1 /\ ~paused /\ parked[c] = -1 /\ nops < MaxOps /\ nops' = nops + 1
            /\ UNCHANGED <<file, config, pools, nextObj, reloadPc, staged, tx, txdef, cobj, viol, applied, paused, parked>>

\* A statement inside the transaction runs on the object the transaction started on.
TxStep(c) ==
  /\ tx[c] \notin {-1, -2} /\ nops < MaxOps /\ nops' = nops + 1
  /\ IF "tx_follows_reload" \in Dev /\ tx[c] # pools.obj
     THEN /\ tx' = [tx EXCEPT ![c] = pools.obj] /\ viol' = viol \cup {"transaction_moved_by_reload"}
     ELSE UNCHANGED <<tx, viol>>
  /\ UNCHANGED <<file, config, pools, nextObj, reloadPc, staged, txdef, cobj, applied, paused, parked>>

TxEnd(c) == /\ tx[c] # -1 /\ tx' = [tx EXCEPT ![c] = -1]
            /\ UNCHANGED <<file, config, pools, nextObj, reloadPc, staged, txdef, cobj, nops, viol, applied, paused, parked>>

Next == (\E f \in Files : WriteFile(f)) \/ ReloadParse \/ ReloadApply \/ Pause \/ Resume
        \/ (\E c \in Clients : TxStart(c) \/ TxStep(c) \/ TxEnd(c) \/ Park(c) \/ Probe(c))
Spec == Init /\ [][Next]_vars

\* C14
\* what is in effect is always the last valid file a reload was given - an invalid file changes nothing
InvalidChangesNothing == reloadPc = "idle" => (config = applied /\ pools.def = applied)
ConfigIsValid == Valid(config)
PoolsFollowConfig == reloadPc = "idle" => pools.def = config
NoViolation == viol = {}
\* an unchanged definition keeps its pool object: object ids only grow when the definition changed
ObjectsOnlyOnChange == nextObj - 1 <= nops
=============================================================================
