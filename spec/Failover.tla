------------------------------ MODULE Failover ------------------------------
(***************************************************************************)
(* Replica banning and failover (src/pool.rs get / run_health_check / ban / *)
(* try_unban / unban, src/client.rs bans on send / receive failures and     *)
(* statement timeout, src/admin.rs BAN / UNBAN).  One shard with an         *)
(* optional primary "p" and replicas.  Time is a logical clock in ticks;    *)
(* a ban lasts BanTime ticks.                                                *)
(*   mode[s]  - health of server s: "up" | "refuse" | "hang" | "badcheck"   *)
(*              | "dies_under_statement"                                     *)
(*   ban[s]   - 0 = not banned, else the tick at which the ban ends          *)
(***************************************************************************)
EXTENDS Integers, Sequences, FiniteSets, TLC

CONSTANTS Replicas, HasPrimary, BanTime, MaxOps, Dev
\* Dev: "primary_bannable"       - the primary exemption is missing
\*      "banned_still_used"      - the ban list is not consulted at checkout
\*      "no_fallback"            - the first failing candidate ends the checkout
\*      "no_ban_on_failed_check" - a failed connect / health check does not ban
\*      "ban_never_expires"      - expiry is not applied
\*      "no_unban_all"           - all replicas banned is not cleared
Servers == Replicas \cup (IF HasPrimary THEN {"p"} ELSE {})
Role(s) == IF s = "p" THEN "primary" ELSE "replica"
\* startup_error: the server answers the startup packet with a FATAL ErrorResponse (PostgreSQL starting up / shutting down)
Modes == {"up", "refuse", "hang", "badcheck", "dies_under_statement", "startup_error"}
Requests == {"primary", "replica", "any"}

VARIABLES mode, ban, now, nops,
          last      \* outcome of the last transaction: [req, result ("served" | "failed" | "refused"), by, tried, viol]
vars == <<mode, ban, now, nops, last>>

Init == /\ mode = [s \in Servers |-> "up"] /\ ban = [s \in Servers |-> 0] /\ now = 1 /\ nops = 0
        /\ last = [req |-> "none", result |-> "none", by |-> "none", viol |-> {}]

Banned(s) == ban[s] > now
Cands(req) == {s \in Servers : req = "any" \/ Role(s) = req}
Healthy(s) == mode[s] = "up"
Connectable(s) == mode[s] \in {"up", "dies_under_statement"}     \* passes connect + health check

Fault(s, m) == /\ nops < MaxOps /\ nops' = nops + 1 /\ m \in Modes /\ m # mode[s]
               /\ mode' = [mode EXCEPT ![s] = m] /\ UNCHANGED <<ban, now, last>>
Tick == /\ nops < MaxOps /\ nops' = nops + 1 /\ now' = now + 1 /\ UNCHANGED <<mode, ban, last>>
AdminBan(s) == /\ nops < MaxOps /\ nops' = nops + 1 /\ s \in Replicas /\ ~Banned(s)
               /\ ban' = [ban EXCEPT ![s] = now + BanTime] /\ UNCHANGED <<mode, now, last>>
AdminUnban(s) == /\ nops < MaxOps /\ nops' = nops + 1 /\ Banned(s)
                 /\ ban' = [ban EXCEPT ![s] = 0] /\ UNCHANGED <<mode, now, last>>

\* A second client opens a transaction on server s and keeps it open for the rest of the history: work in flight on a
\* server changes nothing about how its failures are treated (the ban rules do not mention it).
Hold(s) == /\ nops < MaxOps /\ nops' = nops + 1 /\ mode[s] = "up" /\ ~Banned(s) /\ UNCHANGED <<mode, ban, now, last>>

\* One client transaction with role request req.  The candidate loop of get() is resolved here as a set of
\* possible outcomes; `order` is the (arbitrary) order in which candidates are tried.
BanSet(b, S) == [s \in Servers |-> IF s \in S /\ (s # "p" \/ "primary_bannable" \in Dev) THEN now + BanTime ELSE b[s]]

Tx(req, order) ==
  /\ nops < MaxOps /\ nops' = nops + 1
  /\ LET C == Cands(req)
         \* all replicas of the shard banned: cleared when a banned candidate is looked at
         allBanned == Replicas # {} /\ \A r \in Replicas : Banned(r)
         cleared == allBanned /\ "no_unban_all" \notin Dev /\ (\E s \in C : s \in Replicas)
         b0 == IF cleared THEN [s \in Servers |-> IF s \in Replicas THEN 0 ELSE ban[s]] ELSE ban
         isBanned(s) == b0[s] > now /\ "banned_still_used" \notin Dev
         seq == SelectSeq(order, LAMBDA s : s \in C)
         \* candidates tried before the first one that connects and passes its health check
         RECURSIVE Walk(_, _)
         Walk(i, failed) ==
           IF i > Len(seq) THEN [by |-> "none", failed |-> failed]
           ELSE IF isBanned(seq[i]) THEN Walk(i + 1, failed)
           ELSE IF Connectable(seq[i]) THEN [by |-> seq[i], failed |-> failed]
           ELSE IF "no_fallback" \in Dev THEN [by |-> "none", failed |-> failed \cup {seq[i]}]
           ELSE Walk(i + 1, failed \cup {seq[i]})
         w == Walk(1, {})
         b1 == IF "no_ban_on_failed_check" \in Dev THEN b0 ELSE BanSet(b0, w.failed)
         dies == w.by # "none" /\ mode[w.by] = "dies_under_statement"
         b2 == IF dies THEN BanSet(b1, {w.by}) ELSE b1
         result == IF w.by = "none" THEN "refused" ELSE IF dies THEN "failed" ELSE "served"
         \* monitors (C07)
         usable == {s \in C : Healthy(s) /\ ~(ban[s] > now)}
         v1 == IF w.by # "none" /\ ban[w.by] > now /\ ~cleared /\ usable # {} THEN {"banned_server_used"} ELSE {}
         v2 == IF result = "refused" /\ usable # {} THEN {"refused_although_usable"} ELSE {}
         v3 == IF \E s \in Servers : s = "p" /\ b2[s] > now THEN {"primary_banned"} ELSE {}
         v4 == IF w.failed # {} /\ \E s \in w.failed : s # "p" /\ ~(b2[s] > now) THEN {"failed_server_not_banned"} ELSE {}
         v5 == IF allBanned /\ result = "refused" /\ (\E s \in C : s \in Replicas /\ Healthy(s))
               THEN {"all_banned_not_cleared"} ELSE {}
     IN /\ ban' = b2
        /\ last' = [req |-> req, result |-> result, by |-> w.by, viol |-> v1 \cup v2 \cup v3 \cup v4 \cup v5]
  /\ UNCHANGED <<mode, now>>

Orders == {o \in [1..Cardinality(Servers) -> Servers] : \A i, j \in 1..Cardinality(Servers) : i # j => o[i] # o[j]}
Next == \/ \E s \in Servers, m \in Modes : Fault(s, m)
        \/ Tick
        \/ \E s \in Servers : AdminBan(s) \/ AdminUnban(s)
        \/ \E r \in Requests, o \in Orders : Tx(r, o)
        \/ \E s \in Servers : Hold(s)
Spec == Init /\ [][Next]_vars

NoViolation == last.viol = {}
PrimaryNeverBanned == HasPrimary => ~(ban["p"] > now)
\* expiry: a ban is over after BanTime ticks (deviation keeps it forever)
=============================================================================
