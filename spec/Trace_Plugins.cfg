SPECIFICATION TSpec
CONSTANTS
  PluginsOn = TRUE
  Dev = {}
  MaxMsgs = 0
POSTCONDITION Accepted
CHECK_DEADLOCK FALSE
