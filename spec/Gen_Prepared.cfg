SPECIFICATION GSpec
CONSTANTS
  Clients = {"A", "B"}
  Conns = {"s1", "s2"}
  Names = {"n1", "n2"}
  Stmts = {"q1", "q2", "q3", "bad"}
  BAD = "bad"
  NONE = NONE
  MaxBatches = 4
  MaxLen = 3
  Dev = {}
INVARIANT Emit
