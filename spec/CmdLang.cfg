SPECIFICATION Spec
