------------------------------ MODULE Gen_Stats ------------------------------
EXTENDS Stats, Json, Sequences
VARIABLE hist
gv == <<vars, hist>>
H(r) == hist' = Append(hist, r)
GNext == \E c \in Clients :
   \/ Connect(c) /\ H([op |-> "connect", c |-> c, a |-> ""])
   \/ FailedLogin(c) /\ H([op |-> "failed_login", c |-> c, a |-> ""])
   \/ \E k \in {"stmt", "last", "copy"} : Request(c, k) /\ H([op |-> "request", c |-> c, a |-> k])
   \/ \E h \in {"clean", "abnormal"} : Leave(c, h) /\ H([op |-> "leave", c |-> c, a |-> h])
   \/ Refused(c) /\ H([op |-> "refused", c |-> c, a |-> ""])
   \/ \E k \in {"valid", "stale"} : CancelConn /\ H([op |-> "cancel", c |-> c, a |-> k])
GSpec == Init /\ hist = <<>> /\ [][GNext]_gv
Emit == (nops = MaxOps) => PrintT(<<"SCENARIO", ToJson(hist)>>)
=============================================================================
