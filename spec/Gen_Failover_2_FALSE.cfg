SPECIFICATION GSpec
CONSTANTS
  Replicas = {"r1", "r2"}
  HasPrimary = FALSE
  BanTime = 2
  MaxOps = 6
  Dev = {}
INVARIANT Emit
