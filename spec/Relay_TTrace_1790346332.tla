---- MODULE Relay_TTrace_1790346332 ----
EXTENDS Sequences, Relay, TLCExt, Toolbox, Naturals, TLC

_expression ==
    LET Relay_TEExpression == INSTANCE Relay_TEExpression
    IN Relay_TEExpression!expression
----

_trace ==
    LET Relay_TETrace == INSTANCE Relay_TETrace
    IN Relay_TETrace!trace
----

_inv ==
    ~(
        TLCGet("level") = Len(_TETrace)
        /\
        stream = (<<<<"C", 40>>, <<"G", 8>>, <<"C", 40>>, <<"G", 8>>, <<"E", 40>>, <<"Z", 6>>>>)
        /\
        gstate = ("err")
        /\
        done = (TRUE)
    )
----

_init ==
    /\ done = _TETrace[1].done
    /\ stream = _TETrace[1].stream
    /\ gstate = _TETrace[1].gstate
----

_next ==
    /\ \E i,j \in DOMAIN _TETrace:
        /\ \/ /\ j = i + 1
              /\ i = TLCGet("level")
        /\ done  = _TETrace[i].done
        /\ done' = _TETrace[j].done
        /\ stream  = _TETrace[i].stream
        /\ stream' = _TETrace[j].stream
        /\ gstate  = _TETrace[i].gstate
        /\ gstate' = _TETrace[j].gstate

\* Uncomment the ASSUME below to write the states of the error trace
\* to the given file in Json format. Note that you can pass any tuple
\* to `JsonSerialize`. For example, a sub-sequence of _TETrace.
    \* ASSUME
    \*     LET J == INSTANCE Json
    \*         IN J!JsonSerialize("Relay_TTrace_1790346332.json", _TETrace)

=============================================================================

 Note that you can extract this module `Relay_TEExpression`
  to a dedicated file to reuse `expression` (the module in the 
  dedicated `Relay_TEExpression.tla` file takes precedence 
  over the module `Relay_TEExpression` below).

---- MODULE Relay_TEExpression ----
EXTENDS Sequences, Relay, TLCExt, Toolbox, Naturals, TLC

expression == 
    [
        \* To hide variables of the `Relay` spec from the error trace,
        \* remove the variables below.  The trace will be written in the order
        \* of the fields of this record.
        done |-> done
        ,stream |-> stream
        ,gstate |-> gstate
        
        \* Put additional constant-, state-, and action-level expressions here:
        \* ,_stateNumber |-> _TEPosition
        \* ,_doneUnchanged |-> done = done'
        
        \* Format the `done` variable as Json value.
        \* ,_doneJson |->
        \*     LET J == INSTANCE Json
        \*     IN J!ToJson(done)
        
        \* Lastly, you may build expressions over arbitrary sets of states by
        \* leveraging the _TETrace operator.  For example, this is how to
        \* count the number of times a spec variable changed up to the current
        \* state in the trace.
        \* ,_doneModCount |->
        \*     LET F[s \in DOMAIN _TETrace] ==
        \*         IF s = 1 THEN 0
        \*         ELSE IF _TETrace[s].done # _TETrace[s-1].done
        \*             THEN 1 + F[s-1] ELSE F[s-1]
        \*     IN F[_TEPosition - 1]
    ]

=============================================================================



Parsing and semantic processing can take forever if the trace below is long.
 In this case, it is advised to uncomment the module below to deserialize the
 trace from a generated binary file.

\*
\*---- MODULE Relay_TETrace ----
\*EXTENDS IOUtils, Relay, TLC
\*
\*trace == IODeserialize("Relay_TTrace_1790346332.bin", TRUE)
\*
\*=============================================================================
\*

---- MODULE Relay_TETrace ----
EXTENDS Relay, TLC

trace == 
    <<
    ([stream |-> <<>>,gstate |-> "top",done |-> FALSE]),
    ([stream |-> <<<<"C", 40>>>>,gstate |-> "top",done |-> FALSE]),
    ([stream |-> <<<<"C", 40>>, <<"G", 8>>>>,gstate |-> "cin",done |-> FALSE]),
    ([stream |-> <<<<"C", 40>>, <<"G", 8>>, <<"C", 40>>>>,gstate |-> "top",done |-> FALSE]),
    ([stream |-> <<<<"C", 40>>, <<"G", 8>>, <<"C", 40>>, <<"G", 8>>>>,gstate |-> "cin",done |-> FALSE]),
    ([stream |-> <<<<"C", 40>>, <<"G", 8>>, <<"C", 40>>, <<"G", 8>>, <<"E", 40>>>>,gstate |-> "err",done |-> FALSE]),
    ([stream |-> <<<<"C", 40>>, <<"G", 8>>, <<"C", 40>>, <<"G", 8>>, <<"E", 40>>, <<"Z", 6>>>>,gstate |-> "err",done |-> TRUE])
    >>
----


=============================================================================

---- CONFIG Relay_TTrace_1790346332 ----
CONSTANTS
    T = 8196
    Dev = { "copydone_single_recv" }
    MaxLen = 7
    Small = 40
    Big = 9000

INVARIANT
    _inv

CHECK_DEADLOCK
    \* CHECK_DEADLOCK off because of PROPERTY or INVARIANT above.
    FALSE

INIT
    _init

NEXT
    _next

CONSTANT
    _TETrace <- _trace

ALIAS
    _expression
=============================================================================
\* Generated on Fri Sep 25 14:25:33 UTC 2026