SPECIFICATION GSpec
CONSTANTS
  PluginsOn = TRUE
  Dev = {}
  MaxMsgs = 10
  Depth = 3
INVARIANT Emit
