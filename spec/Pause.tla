------------------------------- MODULE Pause -------------------------------
(***************************************************************************)
(* PAUSE / RESUME (src/pool.rs 680-706, src/admin.rs pause/resume,          *)
(* src/client.rs: pool.wait_paused() before every checkout).                *)
(* tokio's Notify is modelled as a generation counter per pool object:      *)
(* notified() captures the generation, notify_waiters() increments it, and  *)
(* awaiting completes iff the captured generation differs from the current. *)
(* wait_paused() is three steps (CreateNotified, ReadFlag, Await); resume() *)
(* is two (StoreFalse, NotifyWaiters).  A reload that re-creates a pool      *)
(* gives clients that arrive later a NEW pool object.                        *)
(***************************************************************************)
EXTENDS Integers, FiniteSets, TLC

\* (the @type comments are for Apalache, which proves the safety invariant inductive for histories of any length: PauseApa.tla)
CONSTANTS
  \* @type: Set(Str);
  Clients,
  \* @type: Int;
  MaxOps,
  \* @type: Set(Str);
  Dev
\* Dev: "read_before_register"  - wait_paused loads the flag before creating the Notified future
\*      "notify_before_store"   - resume() notifies before clearing the flag
\*      "recreated_pool_forgets_pause" - a pool re-created by RELOAD starts unpaused with a fresh Notify

VARIABLES
  \* current pool object id (changes when RELOAD re-creates the pool)
  \* @type: Int;
  obj,
  \* object id -> flag
  \* @type: Int -> Bool;
  paused,
  \* object id -> Notify generation
  \* @type: Int -> Int;
  gen,
  \* client -> "idle" | "start" | "created" | "read" | "await" | "go"
  \* @type: Str -> Str;
  pc,
  \* client -> pool object it resolved for this transaction
  \* @type: Str -> Int;
  cobj,
  \* client -> captured generation
  \* @type: Str -> Int;
  cap,
  \* client -> flag value it read
  \* @type: Str -> Bool;
  saw,
  \* admin RESUME in progress: "none" | "half"
  \* @type: Str;
  rpc,
  \* @type: Int;
  nops,
  \* client -> it reached the checkout of a transaction while the CURRENT pool was paused (monitor)
  \* @type: Set(Str);
  started

vars == <<obj, paused, gen, pc, cobj, cap, saw, rpc, nops, started>>
Objs == 0..2

Init == /\ obj = 0 /\ paused = [o \in Objs |-> FALSE] /\ gen = [o \in Objs |-> 0]
        /\ pc = [c \in Clients |-> "idle"] /\ cobj = [c \in Clients |-> 0] /\ cap = [c \in Clients |-> 0]
        /\ saw = [c \in Clients |-> FALSE] /\ rpc = "none" /\ nops = 0 /\ started = {}

RegisterFirst == "read_before_register" \notin Dev

\* A client message arrives: the client works with the pool object it holds (resolved at the previous
\* transaction or at connect) - wait_paused() runs on it.
Arrive(c) == /\ pc[c] = "idle" /\ nops < MaxOps /\ nops' = nops + 1
             /\ cobj' = [cobj EXCEPT ![c] = obj]
             /\ pc' = [pc EXCEPT ![c] = "start"]
             /\ UNCHANGED <<obj, paused, gen, cap, saw, rpc, started>>

CreateNotified(c) ==
  /\ pc[c] = (IF RegisterFirst THEN "start" ELSE "read")
  /\ cap' = [cap EXCEPT ![c] = gen[cobj[c]]]
  /\ pc' = [pc EXCEPT ![c] = IF RegisterFirst THEN "created" ELSE (IF saw[c] THEN "await" ELSE "go")]
  /\ UNCHANGED <<obj, paused, gen, cobj, saw, rpc, nops, started>>

ReadFlag(c) ==
  /\ pc[c] = (IF RegisterFirst THEN "created" ELSE "start")
  /\ saw' = [saw EXCEPT ![c] = paused[cobj[c]]]
  /\ pc' = [pc EXCEPT ![c] = IF RegisterFirst THEN (IF paused[cobj[c]] THEN "await" ELSE "go") ELSE "read"]
  /\ UNCHANGED <<obj, paused, gen, cobj, cap, rpc, nops, started>>

Wake(c) == /\ pc[c] = "await" /\ cap[c] # gen[cobj[c]] /\ pc' = [pc EXCEPT ![c] = "go"]
           /\ UNCHANGED <<obj, paused, gen, cobj, cap, saw, rpc, nops, started>>

\* checkout + transaction (the pool is re-resolved here: get_pool())
Checkout(c) == /\ pc[c] = "go" /\ pc' = [pc EXCEPT ![c] = "idle"]
               /\ started' = IF saw[c] /\ paused[cobj[c]] /\ cap[c] = gen[cobj[c]] THEN started \cup {c} ELSE started
               /\ UNCHANGED <<obj, paused, gen, cobj, cap, saw, rpc, nops>>

Pause == /\ rpc = "none" /\ ~paused[obj] /\ nops < MaxOps /\ nops' = nops + 1
         /\ paused' = [paused EXCEPT ![obj] = TRUE]
         /\ UNCHANGED <<obj, gen, pc, cobj, cap, saw, rpc, started>>

StoreFirst == "notify_before_store" \notin Dev
\* (RESUME is not counted against MaxOps: the administrator eventually resumes a paused pool)
ResumeA == /\ rpc = "none" /\ paused[obj] /\ UNCHANGED nops
           /\ IF StoreFirst THEN paused' = [paused EXCEPT ![obj] = FALSE] /\ UNCHANGED gen
              ELSE gen' = [gen EXCEPT ![obj] = @ + 1] /\ UNCHANGED paused
           /\ rpc' = "half"
           /\ UNCHANGED <<obj, pc, cobj, cap, saw, started>>
ResumeB == /\ rpc = "half"
           /\ IF StoreFirst THEN gen' = [gen EXCEPT ![obj] = @ + 1] /\ UNCHANGED paused
              ELSE paused' = [paused EXCEPT ![obj] = FALSE] /\ UNCHANGED gen
           /\ rpc' = "none"
           /\ UNCHANGED <<obj, pc, cobj, cap, saw, nops, started>>

\* RELOAD with a changed definition: new pool object.  Design: it inherits flag and Notify
\* (modelled as the same generation counter continuing and waiters of the old object being
\* woken by a RESUME of the new one); deviation: fresh, unpaused, nobody can wake the old waiters.
Reload == /\ rpc = "none" /\ obj < 2 /\ nops < MaxOps /\ nops' = nops + 1
          /\ obj' = obj + 1
          /\ IF "recreated_pool_forgets_pause" \in Dev
             THEN UNCHANGED <<paused, gen, cobj>>
             ELSE /\ paused' = [paused EXCEPT ![obj + 1] = paused[obj]]
                  /\ gen' = [gen EXCEPT ![obj + 1] = gen[obj]]
                  \* shared Arc<Notify>/flag: the old object's waiters are the new object's waiters
                  /\ cobj' = [c \in Clients |-> IF cobj[c] = obj THEN obj + 1 ELSE cobj[c]]
          /\ UNCHANGED <<pc, cap, saw, rpc, started>>

Next == (\E c \in Clients : Arrive(c) \/ CreateNotified(c) \/ ReadFlag(c) \/ Wake(c) \/ Checkout(c))
        \/ Pause \/ ResumeA \/ ResumeB \/ Reload

Fair == /\ \A c \in Clients : WF_vars(CreateNotified(c)) /\ WF_vars(ReadFlag(c)) /\ WF_vars(Wake(c)) /\ WF_vars(Checkout(c))
        /\ WF_vars(ResumeA) /\ WF_vars(ResumeB)
Spec == Init /\ [][Next]_vars /\ Fair

\* Safety: a client that saw the flag set never reaches checkout while its pool is still paused and no
\* notify has happened (it cannot be in "go" with saw and an unchanged generation).
HeldWhilePaused == started = {}
\* Liveness (RESUME is fair, so a paused pool is eventually resumed): every client that arrived proceeds.
AllProceed == \A c \in Clients : (pc[c] \in {"start", "created", "read", "await", "go"}) ~> (pc[c] = "idle")
=============================================================================
