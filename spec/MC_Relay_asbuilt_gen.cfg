SPECIFICATION RSpec
CONSTANTS
  T = 8196
  Window = 8196
  Dev = {"copydone_single_recv"}
  MaxLen = 6
  Small = 40
  Big = 9000
INVARIANT AllComplete
