SPECIFICATION GSpec
CONSTANTS
  s1 = s1
  s2 = s2
  m1 = m1
  m2 = m2
  Servers = {s1, s2}
  Mirrors = {m1, m2}
  Target <- TargetSplit
  Cap = 10
  MaxReq = 6
  MaxEnv = 4
  Dev = {}
INVARIANT Emit
