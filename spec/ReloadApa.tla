----------------------------- MODULE ReloadApa -----------------------------
(***************************************************************************)
(* Unbounded check of the Reload design with Apalache: IndInv - which       *)
(* contains InvalidChangesNothing, ConfigIsValid, PoolsFollowConfig,        *)
(* NoViolation and ObjectsOnlyOnChange - holds initially and is preserved   *)
(* by every step: any number of file edits, reloads, PAUSE/RESUME and        *)
(* transactions.                                                             *)
(*   apalache-mc check --cinit=ConstInit --init=Init    --inv=IndInv --length=0 ReloadApa.tla *)
(*   apalache-mc check --cinit=ConstInit --init=IndInit --inv=IndInv --length=1 ReloadApa.tla *)
(***************************************************************************)
EXTENDS Reload

ConstInit == Clients = {"X", "Y"} /\ Defs = {"A", "B", "R", "P"} /\ MaxOps = 1000000 /\ Dev = {}
\* negative control: an invalid file that still replaces CONFIG breaks the induction
ConstInitInvalidApplied == Clients = {"X", "Y"} /\ Defs = {"A", "B", "R", "P"} /\ MaxOps = 1000000 /\ Dev = {"invalid_file_applied"}

TypeOK ==
  /\ file \in Files /\ config \in Files /\ staged \in Files /\ applied \in Files
  /\ pools \in [def : Files, obj : Int] /\ nextObj \in Int
  /\ reloadPc \in {"idle", "apply"}
  /\ tx \in [Clients -> Int] /\ txdef \in [Clients -> Files \cup {"none"}] /\ cobj \in [Clients -> Int]
  /\ nops \in 0..MaxOps /\ viol \in SUBSET {"old_definition_after_reload", "served_by_other_pool", "transaction_moved_by_reload"}
  /\ paused \in BOOLEAN /\ parked \in [Clients -> Int]

IndInv ==
  /\ TypeOK
  /\ Valid(config) /\ Valid(applied) /\ config = applied
  /\ reloadPc = "idle" => pools.def = applied
  /\ reloadPc = "apply" => staged = applied
  /\ viol = {}
  \* object ids only grow when the definition changed (a reload under way that will change it is counted already)
  /\ nextObj - 1 + (IF reloadPc = "apply" /\ staged # pools.def THEN 1 ELSE 0) <= nops
IndInit == IndInv
Props == InvalidChangesNothing /\ ConfigIsValid /\ PoolsFollowConfig /\ NoViolation /\ ObjectsOnlyOnChange
=============================================================================
