SPECIFICATION TSpec
CONSTANTS
  T = 8196
  Window = 8196
  Dev = {}
  MaxLen = 0
  Small = 1
  Big = 2
POSTCONDITION Accepted
CHECK_DEADLOCK FALSE
