---------------------------- MODULE Trace_Router ----------------------------
(***************************************************************************)
(* Validates recorded client sessions against Router: every routing         *)
(* command and statement a scripted client issued through the real pgcat,   *)
(* with what the harness observed (handled by the pooler or forwarded, the  *)
(* SHOW value, the role and shard of the mock backend that executed the     *)
(* statement, the verdict of pgcat's SQL parser from the qr_parse hook).    *)
(***************************************************************************)
EXTENDS Router, Json, IOUtils, TLCExt

Rec == ndJsonDeserialize(IOEnv.TRACE)

VARIABLES l, sc, seen
tv == <<rvars, l, sc, seen>>

E == Rec[l]

Report(kind, detail) ==
  IF kind \in seen THEN TRUE
  ELSE PrintT(<<"VIOL", ToJson([sc |-> sc, line |-> l, kind |-> kind, detail |-> detail])>>)
Mark(kinds) == seen' = seen \cup kinds
Flag(cond, kind, detail) == IF cond THEN Report(kind, detail) ELSE TRUE
Kinds(pairs) == UNION {IF p[1] THEN {p[2]} ELSE {} : p \in pairs}

TInit == /\ cfg = [default_role |-> "any", parser |-> FALSE, rwsplit |-> FALSE, primary_reads |-> TRUE, nshards |-> 3]
         /\ roleSel = "default" /\ prSel = "default" /\ shardSel = -1 /\ lastClass = "none"
         /\ l = 1 /\ sc = 0 /\ seen = {}

Reset ==
  /\ E.ev = "reset"
  /\ cfg' = E.cfg /\ roleSel' = "default" /\ prSel' = "default" /\ shardSel' = -1 /\ lastClass' = "none"
  /\ sc' = E.sc /\ seen' = {}

\* A documented command: must be handled by the pooler (never forwarded, well-formed reply).
CmdCommon ==
  LET v1 == ~E.handled
      v2 == E.handled /\ ~E.reply_ok
  IN /\ Flag(v1, "command_forwarded", [op |-> E.op, arg |-> E.arg, text |-> E.text])
     /\ Flag(v2, "command_bad_reply", [op |-> E.op, arg |-> E.arg, reply |-> E.reply])
     /\ Mark(Kinds({<<v1, "command_forwarded">>, <<v2, "command_bad_reply">>}))

CmdSetRole ==
  /\ E.ev = "cmd" /\ E.op = "set_role"
  /\ SetServerRole(E.arg) /\ CmdCommon /\ UNCHANGED sc

CmdSetPr ==
  /\ E.ev = "cmd" /\ E.op = "set_pr"
  /\ SetPrimaryReads(E.arg) /\ CmdCommon /\ UNCHANGED sc

\* SET SHARD TO k: in range -> selected, CommandComplete; out of range -> error reply, unchanged.
CmdSetShard ==
  /\ E.ev = "cmd" /\ E.op = "set_shard"
  /\ SetShard(E.k)
  /\ LET inrange == E.k >= 0 /\ E.k < NShards
         v1 == ~E.handled
         v2 == E.handled /\ ~E.reply_ok
         v3 == E.handled /\ inrange /\ E.is_error
         v4 == E.handled /\ ~inrange /\ ~E.is_error
     IN /\ Flag(v1, "command_forwarded", [op |-> E.op, arg |-> E.arg, text |-> E.text])
        /\ Flag(v2, "command_bad_reply", [op |-> E.op, arg |-> E.arg, reply |-> E.reply])
        /\ Flag(v3, "set_shard_refused_in_range", [k |-> E.k, n |-> NShards])
        /\ Flag(v4, "set_shard_accepted_out_of_range", [k |-> E.k, n |-> NShards])
        /\ Mark(Kinds({<<v1, "command_forwarded">>, <<v2, "command_bad_reply">>,
                       <<v3, "set_shard_refused_in_range">>, <<v4, "set_shard_accepted_out_of_range">>}))
  /\ UNCHANGED sc

\* SET SHARDING KEY TO k
CmdSetKey ==
  /\ E.ev = "cmd" /\ E.op = "set_key"
  /\ SetShardingKey(E.neg, <<E.hi[1], E.hi[2]>>, <<E.lo[1], E.lo[2]>>) /\ CmdCommon /\ UNCHANGED sc

\* SET SHARDING KEY under the SHA1 sharding function: TLA+ does not evaluate SHA-1; the expected
\* shard is supplied by the harness (hashlib) and only persistence / agreement is decided here.
CmdSetKeyExt ==
  /\ E.ev = "cmd" /\ E.op = "set_key_ext"
  /\ shardSel' = E.expect /\ UNCHANGED <<cfg, roleSel, prSel, lastClass>>
  /\ CmdCommon /\ UNCHANGED sc

\* A documented command whose effect on the selection the statement leaves open (SET SHARD TO ANY,
\* a sharding key that does not fit a bigint): handled, well-formed reply; the shard becomes unknown.
CmdOpaque ==
  /\ E.ev = "cmd" /\ E.op = "opaque"
  /\ shardSel' = -2 /\ UNCHANGED <<cfg, roleSel, prSel, lastClass>>
  /\ CmdCommon /\ UNCHANGED sc

\* SHOW ...: value must be what the preceding SETs established
CmdShow ==
  /\ E.ev = "cmd" /\ E.op \in {"show_role", "show_pr", "show_shard"}
  /\ LET want == CASE E.op = "show_role" -> ShowServerRoleValue
                   [] E.op = "show_pr" -> ShowPrimaryReadsValue
                   [] OTHER -> ShowShardValue
         v1 == ~E.handled
         v2 == E.handled /\ ~E.reply_ok
         v3 == E.handled /\ E.reply_ok /\ want # "dontcare" /\ E.value # want
     IN /\ Flag(v1, "command_forwarded", [op |-> E.op, arg |-> "", text |-> E.text])
        /\ Flag(v2, "command_bad_reply", [op |-> E.op, arg |-> "", reply |-> E.reply])
        /\ Flag(v3, "show_wrong_value", [op |-> E.op, want |-> want, got |-> E.value,
                                         roleSel |-> roleSel, prSel |-> prSel, shardSel |-> shardSel])
        /\ Mark(Kinds({<<v1, "command_forwarded">>, <<v2, "command_bad_reply">>, <<v3, "show_wrong_value">>}))
  /\ UNCHANGED <<rvars, sc>>

\* A query that is not a documented command: forwarded untouched.
NonCommand ==
  /\ E.ev = "noncmd"
  /\ LET v1 == ~E.forwarded
         v2 == E.forwarded /\ ~E.identical
     IN /\ Flag(v1, "noncommand_handled", [text |-> E.text, reply |-> E.reply])
        /\ Flag(v2, "noncommand_modified", [text |-> E.text])
        /\ Mark(Kinds({<<v1, "noncommand_handled">>, <<v2, "noncommand_modified">>}))
  /\ lastClass' = "forwarded" /\ UNCHANGED <<cfg, roleSel, prSel, shardSel, sc>>

\* A statement that starts a transaction (or is one): role and shard of the executing backend.
\* A key-carrying statement (E.haskey) first selects PgShard(key).
StmtEv ==
  /\ E.ev = "stmt"
  /\ LET cls == E.class
         sh == IF E.haskey THEN (IF E.ext >= 0 THEN E.ext ELSE PgShard(E.neg, <<E.hi[1], E.hi[2]>>, <<E.lo[1], E.lo[2]>>, NShards))
               ELSE IF E.setshard >= 0 THEN E.setshard ELSE shardSel
         exp == IF E.parsed THEN ExpectedRole(cls) ELSE ExpectedRole("unparseable")
         executed == E.role # "none"
         v1 == executed /\ ~E.intx /\ ~RoleOk(exp, E.role)
         v2 == executed /\ E.intx /\ ~E.same
         v3 == executed /\ sh >= 0 /\ E.shard # sh
     IN /\ shardSel' = sh /\ lastClass' = cls /\ UNCHANGED <<cfg, roleSel, prSel>>
        /\ Flag(v1, "wrong_role", [class |-> cls, expected |-> exp, got |-> E.role, roleSel |-> roleSel,
                                   prSel |-> prSel, cfg |-> cfg, sql |-> E.sql, proto |-> E.proto])
        /\ Flag(v2, "transaction_moved", [class |-> cls, sql |-> E.sql])
        /\ Flag(v3, "wrong_shard", [expected |-> sh, got |-> E.shard, path |-> E.path, sql |-> E.sql])
        /\ Mark(Kinds({<<v1, "wrong_role">>, <<v2, "transaction_moved">>, <<v3, "wrong_shard">>}))
  /\ UNCHANGED sc

Step ==
  /\ l <= Len(Rec) /\ l' = l + 1
  /\ \/ Reset \/ CmdSetRole \/ CmdSetPr \/ CmdSetShard \/ CmdSetKey \/ CmdSetKeyExt \/ CmdOpaque \/ CmdShow \/ NonCommand \/ StmtEv

TSpec == TInit /\ [][Step]_tv
Accepted == /\ PrintT(<<"MATCHED", ToString(TLCGet("stats").diameter - 1)>>)
            /\ TLCGet("stats").diameter - 1 = Len(Rec)
=============================================================================
