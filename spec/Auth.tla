-------------------------------- MODULE Auth --------------------------------
(***************************************************************************)
(* Client authentication (src/client.rs get_startup / Client::startup,      *)
(* src/messages.rs md5_challenge / md5_hash_password / md5_hash_second_pass).*)
(* One client connection: a startup message of some class, then - when the   *)
(* pooler asks for a password - a response of some class.  `conn` is the     *)
(* serial number of the connection; a replayed response is a correct answer  *)
(* to the salt of an EARLIER connection.                                      *)
(***************************************************************************)
EXTENDS Integers, FiniteSets, TLC

\* pool_md5_authquery2: a second user of the same auth_query pool (its secret is "the other user's" for the first)
StartupClasses == {"pool_md5", "pool_md5_authquery", "pool_md5_authquery2", "pool_trust", "unknown_db", "unknown_user", "admin_ok_user",
                   "admin_wrong_user", "no_user"}
\* zero_length_body / constant_md5 / correct_prefix / correct_without_nul: well-framed PasswordMessages whose payload
\* is shorter than a full answer (nothing, the literal "md5", a prefix of the right answer, the right answer without NUL)
ResponseClasses == {"correct", "wrong_password", "replayed", "other_users_password", "truncated", "empty",
                    "wrong_message_type", "none", "zero_length_body", "constant_md5", "correct_prefix",
                    "correct_without_nul", "correct_with_suffix", "previous_password"}
\* previous_password: a correct answer computed from the password that was configured before the last RELOAD changed it
\* (the secret in force is the one of the configuration in effect - C14 says which that is)
CONSTANT Dev
\* Dev: "any_password"   - the comparison is skipped / inverted
\*      "salt_ignored"   - a correct answer to another connection's salt is accepted
\*      "admin_via_pool" - the admin database accepts a pool user's credentials
\*      "ok_before_check" - AuthenticationOk is sent before the response is verified
\*      "stale_secret"   - a password changed by RELOAD is still checked against its old value
\*      "secret_shared_in_pool" - the users of one auth_query pool section are checked against one shared secret

VARIABLES phase, startup, authok, admitted, leaked, resp
vars == <<phase, startup, authok, admitted, leaked, resp>>
Init == phase = "start" /\ startup = "none" /\ authok = FALSE /\ admitted = FALSE /\ leaked = FALSE /\ resp = "none"

NeedsPassword(s) == s \in {"pool_md5", "pool_md5_authquery", "pool_md5_authquery2", "admin_ok_user", "admin_wrong_user"}
Configured(s) == s \in {"pool_md5", "pool_md5_authquery", "pool_md5_authquery2", "pool_trust", "admin_ok_user", "admin_wrong_user"}

\* C09: who may be admitted
MayAdmit(s, r) ==
  \/ s = "pool_trust"
  \/ s \in {"pool_md5", "pool_md5_authquery", "pool_md5_authquery2", "admin_ok_user"} /\ r = "correct"

Startup(s) ==
  /\ phase = "start" /\ startup' = s
  /\ IF ~Configured(s) THEN phase' = "closed" /\ UNCHANGED <<authok, admitted>>
     ELSE IF NeedsPassword(s) THEN phase' = "await_pw" /\ authok' = ("ok_before_check" \in Dev) /\ UNCHANGED admitted
     ELSE phase' = "authed" /\ authok' = TRUE /\ admitted' = TRUE
  /\ UNCHANGED <<leaked, resp>>

Accepts(s, r) ==
  \/ MayAdmit(s, r)
  \/ "any_password" \in Dev /\ r \in {"wrong_password", "replayed", "other_users_password"}
  \/ "prefix_accepted" \in Dev /\ r \in {"zero_length_body", "constant_md5", "correct_prefix", "correct_without_nul"}
  \/ "salt_ignored" \in Dev /\ r = "replayed" /\ s # "admin_wrong_user"
  \/ "admin_via_pool" \in Dev /\ s = "admin_wrong_user" /\ r = "correct"
  \/ "stale_secret" \in Dev /\ s = "pool_md5" /\ r = "previous_password"
  \/ "secret_shared_in_pool" \in Dev /\ s \in {"pool_md5_authquery", "pool_md5_authquery2"} /\ r = "other_users_password"

Respond(r) ==
  /\ phase = "await_pw"
  /\ IF Accepts(startup, r) THEN phase' = "authed" /\ authok' = TRUE /\ admitted' = TRUE
     ELSE phase' = "closed" /\ UNCHANGED <<authok, admitted>>
  /\ resp' = r
  /\ UNCHANGED <<startup, leaked>>

\* a query sent by the client: reaches a server only when authenticated
Query == /\ phase # "start"
         /\ leaked' = (leaked \/ (phase = "authed" /\ FALSE))
         /\ UNCHANGED <<phase, startup, authok, admitted, resp>>

Next == (\E s \in StartupClasses : Startup(s)) \/ (\E r \in ResponseClasses : Respond(r))
Spec == Init /\ [][Next]_vars

\* the last response given is remembered through phase; the invariants quantify over reachable states
NoOkWithoutCredentials == authok => (startup = "pool_trust" \/ phase = "authed")
OnlyValidAdmitted == admitted => startup \in {"pool_trust", "pool_md5", "pool_md5_authquery", "pool_md5_authquery2", "admin_ok_user"}
AdmittedOnlyByRule == admitted => MayAdmit(startup, resp)
=============================================================================
