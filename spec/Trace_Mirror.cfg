SPECIFICATION TSpec
POSTCONDITION Accepted
CHECK_DEADLOCK FALSE
