SPECIFICATION TSpec
CONSTANT Dev = {}
POSTCONDITION Accepted
CHECK_DEADLOCK FALSE
