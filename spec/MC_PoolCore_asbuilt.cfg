SPECIFICATION Spec
CONSTANTS
  Clients = {c1, c2}
  Conns = {s1, s2}
  NONE = NONE
  PoolSize = 1
  TxMode = TRUE
  Dev = {"putback_reuses_unclean", "copydone_single_recv", "copydone_no_copy_check"}
  MaxMsgs = 3
INVARIANTS TypeOK ExclusiveHold CleanHandoff IdleIsClean Bounded NoLeak MapSound BeliefSound
