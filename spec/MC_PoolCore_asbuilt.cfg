SPECIFICATION Spec
CONSTANTS
  Clients = {c1, c2}
  Conns = {s1, s2}
  NONE = NONE
  PoolSize = 1
  TxMode = TRUE
  Dev = {"putback_reuses_unclean", "copydone_single_recv", "copydone_no_copy_check", "set_in_tx_not_marked"}
  MaxMsgs = 3
INVARIANTS TypeOK ExclusiveHold CleanHandoff IdleIsClean Bounded NoLeak MapSound MapComplete BeliefSound HoldsOnlyInTx
