------------------------------ MODULE Prepared ------------------------------
(***************************************************************************)
(* Prepared-statement caching (src/client.rs buffer_parse / buffer_bind /   *)
(* Sync-time processing / register_parse_to_server_cache, src/server.rs     *)
(* register_prepared_statement and the '1' / 'E' handling in recv).         *)
(* The pooler keeps a BELIEF per server connection (the LRU of statement     *)
(* names it thinks exist there, and the queue of names whose ParseComplete   *)
(* is still outstanding); the backend keeps the TRUTH (its statement table). *)
(* A client batch is a list of items P(n, q) / BE(n) (Bind+Execute) / C(n)   *)
(* closed by Sync.  Ref is what a direct connection to PostgreSQL does with  *)
(* the same batches - the yardstick of property C08.                         *)
(* Dev: "error_pops_one" - on ErrorResponse only the oldest outstanding      *)
(* registration is dropped (as built), although the server skips all the     *)
(* remaining messages of the batch.                                          *)
(* Dev: "dealloc_keeps_belief" - see SqlPrepare.                             *)
(***************************************************************************)
EXTENDS Integers, Sequences, FiniteSets, TLC
CONSTANTS Clients, Conns, Names, Stmts, BAD, NONE, MaxBatches, MaxLen, Dev
\* pgcat-side name of a statement text = the text itself (pool-level cache keyed by text, no pool eviction here)
VARIABLES dref, cmap,        \* [client -> [name -> stmt or NONE]]
          bel, reg,    \* per conn: believed set of pg names, registering queue (seq of pg names)
          truth,       \* per conn: set of pg names really prepared on the backend
          nb, viol
vars == <<dref, cmap, bel, reg, truth, nb, viol>>
Items == ([k : {"P"}, n : Names, q : Stmts]) \cup ([k : {"BE"}, n : Names]) \cup ([k : {"C"}, n : Names])
Batches == UNION {[1..l -> Items] : l \in 1..MaxLen}
Init == /\ dref = [c \in Clients |-> [n \in Names |-> NONE]] /\ cmap = [c \in Clients |-> [n \in Names |-> NONE]]
        /\ bel = [s \in Conns |-> {}] /\ reg = [s \in Conns |-> <<>>] /\ truth = [s \in Conns |-> {}]
        /\ nb = 0 /\ viol = {}
\* ---- backend: process a message list with skip-until-Sync; returns [truth, resp, execs, errs]
RECURSIVE Backend(_, _, _, _, _, _)
Backend(msgs, i, tr, skip, resp, out) ==
  IF i > Len(msgs) THEN [truth |-> tr, resp |-> Append(resp, "Z"), out |-> out]
  ELSE LET m == msgs[i] IN
    IF skip THEN Backend(msgs, i + 1, tr, TRUE, resp, out)
    ELSE IF m.k = "P" THEN
            IF m.q = BAD THEN Backend(msgs, i + 1, tr, TRUE, Append(resp, "E"), out)
            ELSE IF m.pg \in tr THEN Backend(msgs, i + 1, tr, TRUE, Append(resp, "E"), out \cup {<<"already_exists", m.pg>>})
            ELSE Backend(msgs, i + 1, tr \cup {m.pg}, FALSE, Append(resp, "1"), out)
    ELSE \* BE: bind + execute
            IF m.pg \notin tr THEN Backend(msgs, i + 1, tr, TRUE, Append(resp, "E"), out \cup {<<"no_such_stmt", m.pg>>})
            ELSE Backend(msgs, i + 1, tr, FALSE, Append(Append(resp, "2"), "C"), out \cup {<<"exec", m.pg, Len(resp)>>})
\* ---- pooler recv: '1' pops registering; 'E' pops and un-believes
RECURSIVE Recv(_, _, _, _)
Recv(resp, i, b, r) ==
  IF i > Len(resp) THEN [bel |-> b, reg |-> r]
  ELSE IF resp[i] = "1" THEN Recv(resp, i + 1, b, IF r = <<>> THEN r ELSE Tail(r))
  ELSE IF resp[i] = "E" THEN
         IF "error_pops_one" \in Dev
         THEN Recv(resp, i + 1, IF r = <<>> THEN b ELSE b \ {Head(r)}, IF r = <<>> THEN r ELSE Tail(r))
         ELSE Recv(resp, i + 1, b \ {r[j] : j \in 1..Len(r)}, <<>>)   \* nothing still outstanding was created
  ELSE Recv(resp, i + 1, b, r)
\* ---- pooler Sync-time processing of the buffered batch on conn state st = [bel, reg, truth, main, out, cm]
RECURSIVE Proc(_, _, _)
Proc(items, i, st) ==
  IF i > Len(items) THEN st
  ELSE LET it == items[i] IN
    IF it.k = "C" THEN Proc(items, i + 1, [st EXCEPT !.closed = @ \cup {it.n}])
    ELSE IF it.k = "P" THEN
       \* buffer_parse already updated the client's map at receive time (done by caller); here: Sync-time handling
       IF it.q \in st.bel THEN Proc(items, i + 1, st)    \* synthesised ParseComplete, nothing sent
       ELSE Proc(items, i + 1, [st EXCEPT !.bel = @ \cup {it.q}, !.reg = Append(@, it.q),
                                          !.main = Append(@, [k |-> "P", pg |-> it.q, q |-> it.q])])
    ELSE \* BE with client name it.n, resolved at buffer time to it.pg (NONE = unknown -> client error, batch dropped by caller)
       LET pg == it.pg IN
       IF pg \in st.bel THEN Proc(items, i + 1, [st EXCEPT !.main = Append(@, [k |-> "BE", pg |-> pg, want |-> pg])])
       ELSE \* ensure: register with send_parse = TRUE -> immediate Parse+Sync round trip
         LET be == Backend(<<[k |-> "P", pg |-> pg, q |-> pg]>>, 1, st.truth, FALSE, <<>>, {})
             rv == Recv(be.resp, 1, st.bel \cup {pg}, Append(st.reg, pg))
         IN Proc(items, i + 1, [st EXCEPT !.bel = rv.bel, !.reg = rv.reg, !.truth = be.truth,
                                          !.out = @ \cup be.out,
                                          !.main = Append(@, [k |-> "BE", pg |-> pg, want |-> pg])])
\* resolve names at buffer time, sequentially (Parse updates the map before later Binds)
RECURSIVE Resolve(_, _, _, _)
Resolve(batch, i, cm, acc) ==
  IF i > Len(batch) THEN [items |-> acc, cm |-> cm, ok |-> TRUE]
  ELSE LET it == batch[i] IN
    IF it.k = "P" THEN Resolve(batch, i + 1, [cm EXCEPT ![it.n] = it.q], Append(acc, it))
    ELSE IF it.k = "C" THEN Resolve(batch, i + 1, cm, Append(acc, it))
    ELSE IF cm[it.n] = NONE THEN [items |-> acc, cm |-> cm, ok |-> FALSE]
         ELSE Resolve(batch, i + 1, cm, Append(acc, [k |-> "BE", n |-> it.n, pg |-> cm[it.n]]))
\* direct-connection reference: what a client talking straight to PostgreSQL would get executed
RECURSIVE Ref(_, _, _, _, _)
Ref(batch, i, m, skip, ex) ==
  IF i > Len(batch) THEN [m |-> m, ex |-> ex, oos |-> FALSE]
  ELSE LET it == batch[i] IN
    IF it.k = "P" /\ m[it.n] # NONE THEN [m |-> m, ex |-> ex, oos |-> TRUE]  \* re-Parse without Close: outside the property
    ELSE IF it.k = "C" THEN Ref(batch, i + 1, IF skip THEN m ELSE [m EXCEPT ![it.n] = NONE], skip, ex)
    \* a Bind of a name the client does not hold is a client error whether or not the server is skipping
    ELSE IF it.k = "BE" /\ m[it.n] = NONE THEN [m |-> m, ex |-> ex, oos |-> TRUE]
    ELSE IF skip THEN Ref(batch, i + 1, m, TRUE, ex)
    ELSE IF it.k = "P" THEN (IF it.q = BAD THEN Ref(batch, i + 1, m, TRUE, ex)
                             ELSE Ref(batch, i + 1, [m EXCEPT ![it.n] = it.q], FALSE, ex))
    ELSE IF m[it.n] = NONE THEN [m |-> m, ex |-> ex, oos |-> TRUE]   \* Bind of a name the client does not have: outside the property
         ELSE Ref(batch, i + 1, m, FALSE, Append(ex, m[it.n]))
RunBatch(c, s, batch) ==
  /\ nb < MaxBatches /\ nb' = nb + 1
  /\ LET rs == Resolve(batch, 1, cmap[c], <<>>) IN
     IF ~rs.ok THEN /\ cmap' = [cmap EXCEPT ![c] = [n \in Names |-> NONE]]  \* client told "does not exist", disconnected
                    /\ dref' = [dref EXCEPT ![c] = [n \in Names |-> NONE]]
                    /\ UNCHANGED <<bel, reg, truth, viol>>
     ELSE LET st0 == [bel |-> bel[s], reg |-> reg[s], truth |-> truth[s], main |-> <<>>, out |-> {}, closed |-> {}]
              st1 == Proc(rs.items, 1, st0)
              be == Backend(st1.main, 1, st1.truth, FALSE, <<>>, {})
              rv == Recv(be.resp, 1, st1.bel, st1.reg)
              outs == st1.out \cup be.out
              rf == Ref(batch, 1, dref[c], FALSE, <<>>)
              exset == {o \in be.out : o[1] = "exec"}
              exseq == [j \in 1..Cardinality(exset) |->
                          (CHOOSE o \in exset : Cardinality({p \in exset : p[3] < o[3]}) = j - 1)[2]]
              bad == IF exseq = rf.ex THEN {} ELSE {<<"exec_mismatch", exseq, rf.ex>>}
          IN /\ ~rf.oos
             /\ cmap' = [cmap EXCEPT ![c] = [n \in Names |-> IF n \in st1.closed THEN NONE ELSE rs.cm[n]]] /\ dref' = [dref EXCEPT ![c] = rf.m]
             /\ bel' = [bel EXCEPT ![s] = rv.bel] /\ reg' = [reg EXCEPT ![s] = rv.reg]
             /\ truth' = [truth EXCEPT ![s] = be.truth]
             /\ viol' = viol \cup bad
\* A client runs PREPARE through the simple protocol on s.  When the connection is given back the pooler cleans it with
\* DEALLOCATE ALL (checkin_cleanup, needs_cleanup_prepare), which drops every statement of the session - the pooler's own
\* PGCAT_n included; its belief about the connection is emptied with them.
\* Dev "dealloc_keeps_belief": the belief survives the DEALLOCATE ALL.
SqlPrepare(c, s) ==
  /\ nb < MaxBatches /\ nb' = nb + 1
  /\ truth' = [truth EXCEPT ![s] = {}]
  /\ bel' = IF "dealloc_keeps_belief" \in Dev THEN bel ELSE [bel EXCEPT ![s] = {}]
  /\ reg' = [reg EXCEPT ![s] = <<>>]
  /\ UNCHANGED <<dref, cmap, viol>>
Next == \/ \E c \in Clients, s \in Conns, b \in Batches : RunBatch(c, s, b)
        \/ \E c \in Clients, s \in Conns : SqlPrepare(c, s)
Spec == Init /\ [][Next]_vars
NoSpurious == viol = {}
BeliefSound == \A s \in Conns : bel[s] \subseteq truth[s]
====
