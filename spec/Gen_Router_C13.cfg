SPECIFICATION GSpec
CONSTANTS
  Depth = 3
  GenClasses = {}
  GenKeys = {0, 1, 2, 3, 7}
  GenShows = {"show_role", "show_pr", "show_shard"}
INVARIANT Emit
