SPECIFICATION Spec
CONSTANTS
  Clients = {c1, c2}
  Admins = {a1}
  AllowBacklog = FALSE
  Dev = {"no_admin_only_gate"}
INVARIANTS NoLoginAfterSigint Graceful TxNotCut
PROPERTY ExitsWhenDrained
