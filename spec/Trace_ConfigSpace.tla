-------------------------- MODULE Trace_ConfigSpace --------------------------
(* One record per configuration: whether the real pgcat accepted it (started and listened), and for accepted ones  *)
(* what happened to a probe transaction per selectable shard, to a statement with no shard selected, and to the     *)
(* admin console.  ConfigSpace.tla says what C15 requires.                                                          *)
EXTENDS ConfigSpace, IOUtils, TLCExt
Rec == ndJsonDeserialize(IOEnv.TRACE)
VARIABLE l
E == Rec[l]
Report(kind, detail) == PrintT(<<"VIOL", ToJson([sc |-> E.sc, line |-> l, kind |-> kind, detail |-> detail])>>)
Flag(c, kind, detail) == IF c THEN Report(kind, detail) ELSE TRUE
Step ==
  /\ l <= Len(Rec) /\ l' = l + 1 /\ UNCHANGED done
  /\ LET c == E.c
         rs == Reasons(c)
         wrong == {i \in 1..Len(E.probes) : E.probes[i].landed # "none" /\ E.probes[i].landed # E.probes[i].want}
         unreach == {i \in 1..Len(E.probes) : E.probes[i].landed = "none" /\ E.probes[i].must}
         v1 == E.accepted /\ rs # {}
         v2 == E.accepted /\ rs = {} /\ wrong # {}
         v3 == E.accepted /\ rs = {} /\ unreach # {}
         v4 == E.accepted /\ E.died
         v5 == E.accepted /\ rs = {} /\ ~E.admin_ok
     IN /\ Flag(v1, "unservable_configuration_accepted", [reasons |-> rs, config |-> c])
        /\ Flag(v2, "shard_misrouted", [config |-> c, probes |-> [i \in wrong |-> E.probes[i]]])
        /\ Flag(v3, "shard_unreachable", [config |-> c, probes |-> [i \in unreach |-> E.probes[i]]])
        /\ Flag(v4, "pooler_died", [config |-> c, note |-> E.note])
        /\ Flag(v5, "admin_console_failed", [config |-> c, note |-> E.note])
TInit == Init /\ l = 1
TSpec == TInit /\ [][Step]_<<done, l>>
Accepted == /\ PrintT(<<"MATCHED", ToString(TLCGet("stats").diameter - 1)>>)
            /\ TLCGet("stats").diameter - 1 = Len(Rec)
=============================================================================
