SPECIFICATION Spec
CONSTANTS
  Clients = {c1, c2}
  Conns = {s1, s2}
  NONE = NONE
  PoolSize = 2
  TxMode = TRUE
  Dev = {"claim_unmaps_previous"}
  MaxMsgs = 3
INVARIANTS TypeOK ExclusiveHold CleanHandoff IdleIsClean Bounded NoLeak MapSound MapComplete BeliefSound HoldsOnlyInTx
