----------------------------- MODULE Trace_Auth -----------------------------
(* One record per client connection attempt against the real pgcat: the class of the startup message and of the  *)
(* password response (as constructed by the harness, which knows the salts it was given), and what happened:     *)
(* AuthenticationOk seen, ReadyForQuery seen, whether anything the client sent reached a mock backend.           *)
EXTENDS Auth, Json, IOUtils, TLCExt, Sequences
Rec == ndJsonDeserialize(IOEnv.TRACE)
VARIABLES l, seen
E == Rec[l]
Report(kind, detail) == PrintT(<<"VIOL", ToJson([sc |-> E.sc, line |-> l, kind |-> kind, detail |-> detail])>>)
Flag(c, kind, detail) == IF c THEN Report(kind, detail) ELSE TRUE
Step ==
  /\ l <= Len(Rec) /\ l' = l + 1 /\ UNCHANGED <<vars, seen>>
  /\ LET may == MayAdmit(E.startup, E.response)
         v1 == E.authok /\ ~may
         v2 == E.ready /\ ~may
         v3 == E.leaked /\ ~may
         v4 == E.statement_ran /\ ~may
     IN /\ Flag(v1, "authentication_ok_without_credentials", [startup |-> E.startup, response |-> E.response, tls |-> E.tls, cfg |-> E.cfg])
        /\ Flag(v2 /\ ~v1, "ready_without_credentials", [startup |-> E.startup, response |-> E.response, tls |-> E.tls])
        /\ Flag(v3, "bytes_reached_server_before_authentication", [startup |-> E.startup, response |-> E.response])
        /\ Flag(v4 /\ ~v3, "statement_ran_without_credentials", [startup |-> E.startup, response |-> E.response])
TInit == Init /\ l = 1 /\ seen = {}
TSpec == TInit /\ [][Step]_<<vars, l, seen>>
Accepted == /\ PrintT(<<"MATCHED", ToString(TLCGet("stats").diameter - 1)>>)
            /\ TLCGet("stats").diameter - 1 = Len(Rec)
=============================================================================
