SPECIFICATION Spec
CONSTANT Dev = {}
INVARIANTS NoOkWithoutCredentials OnlyValidAdmitted AdmittedOnlyByRule
