----------------------------- MODULE Gen_Relay -----------------------------
EXTENDS Relay, Json
EmitStream == done => PrintT(<<"STREAM", ToJson(stream)>>)
=============================================================================
