---------------------------- MODULE Trace_Pause ----------------------------
(***************************************************************************)
(* Validates the hook trace of the real pgcat (global sequence order)       *)
(* against the PAUSE/RESUME protocol of Pause.tla: per client the order of  *)
(* the three wait_paused steps, no checkout by a client that saw the flag   *)
(* set before it was woken, the order of the two resume steps, the flag a    *)
(* client must read after a completed PAUSE, and - at the end of a scenario  *)
(* whose pools are all resumed - that nobody is still waiting.               *)
(***************************************************************************)
EXTENDS Integers, Sequences, FiniteSets, TLC, Json, IOUtils, TLCExt
Rec == ndJsonDeserialize(IOEnv.TRACE)
NC == atoi(IOEnv.NC)
Clients == 1..NC
Pools == 1..3

VARIABLES l, sc, seen,
          pausedM,   \* pool -> paused as established by the pause / resume_store events
          fresh,     \* pool -> re-created by a reload since the last pause (flag expectations suspended)
          halfres,   \* pool -> a resume_store without its resume_notify yet
          cpool,     \* client -> pool
          st,        \* client -> "idle" | "start" | "created" | "read" | "await" | "go"
          sawp,      \* client -> value read
          must       \* client -> a completed PAUSE preceded its arrival and no RESUME step followed: it must read TRUE
tv == <<l, sc, seen, pausedM, fresh, halfres, cpool, st, sawp, must>>
E == Rec[l]
Report(kind, detail) ==
  IF kind \in seen THEN TRUE
  ELSE PrintT(<<"VIOL", ToJson([sc |-> sc, line |-> l, kind |-> kind, detail |-> detail])>>)
Flag(c, kind, detail) == IF c THEN Report(kind, detail) ELSE TRUE
K(pairs) == UNION {IF p[1] THEN {p[2]} ELSE {} : p \in pairs}

Fresh == /\ pausedM = [p \in Pools |-> FALSE] /\ fresh = [p \in Pools |-> FALSE] /\ halfres = [p \in Pools |-> FALSE]
         /\ cpool = [c \in Clients |-> 1] /\ st = [c \in Clients |-> "idle"] /\ sawp = [c \in Clients |-> FALSE]
         /\ must = [c \in Clients |-> FALSE]
TInit == Fresh /\ l = 1 /\ sc = 0 /\ seen = {}

Reset == /\ E.ev = "reset"
         /\ pausedM' = [p \in Pools |-> FALSE] /\ fresh' = [p \in Pools |-> FALSE] /\ halfres' = [p \in Pools |-> FALSE]
         /\ cpool' = [c \in Clients |-> 1] /\ st' = [c \in Clients |-> "idle"] /\ sawp' = [c \in Clients |-> FALSE]
         /\ must' = [c \in Clients |-> FALSE]
         /\ sc' = E.sc /\ seen' = {}

Arrive == /\ E.ev = "arrive"
          /\ st' = [st EXCEPT ![E.c] = "start"] /\ cpool' = [cpool EXCEPT ![E.c] = E.pool]
          /\ must' = [must EXCEPT ![E.c] = pausedM[E.pool] /\ ~fresh[E.pool]]
          /\ UNCHANGED <<sc, seen, pausedM, fresh, halfres, sawp>>

Created == /\ E.ev = "created"
           /\ LET v == st[E.c] # "start" IN
                /\ Flag(v, "flag_read_before_register", [client |-> E.c, state |-> st[E.c]])
                /\ seen' = seen \cup K({<<v, "flag_read_before_register">>})
           /\ st' = [st EXCEPT ![E.c] = IF st[E.c] = "read" THEN (IF sawp[E.c] THEN "await" ELSE "go") ELSE "created"]
           /\ UNCHANGED <<sc, pausedM, fresh, halfres, cpool, sawp, must>>

\* The load of the flag.  After a completed PAUSE (its hook precedes this client's arrival in the global
\* order and no resume_store followed) the value must be TRUE.
ReadEv == /\ E.ev = "read"
          /\ LET p == cpool[E.c]
                 v1 == st[E.c] # "created"
                 v2 == must[E.c] /\ ~E.paused
             IN /\ Flag(v1, "flag_read_before_register", [client |-> E.c, state |-> st[E.c]])
                /\ Flag(v2, "pause_not_observed", [client |-> E.c, pool |-> p])
                /\ seen' = seen \cup K({<<v1, "flag_read_before_register">>, <<v2, "pause_not_observed">>})
          /\ sawp' = [sawp EXCEPT ![E.c] = E.paused]
          /\ st' = [st EXCEPT ![E.c] = IF st[E.c] = "created" THEN (IF E.paused THEN "await" ELSE "go") ELSE "read"]
          /\ UNCHANGED <<sc, pausedM, fresh, halfres, cpool, must>>

Woken == /\ E.ev = "woken" /\ st' = [st EXCEPT ![E.c] = "go"]
         /\ UNCHANGED <<sc, seen, pausedM, fresh, halfres, cpool, sawp, must>>

\* checkout_ok: a client that saw the flag set and has not been woken must not get here
Checkout == /\ E.ev = "checkout"
            /\ LET v == st[E.c] = "await" IN
                 /\ Flag(v, "checkout_while_paused", [client |-> E.c, pool |-> cpool[E.c]])
                 /\ seen' = seen \cup K({<<v, "checkout_while_paused">>})
            /\ st' = [st EXCEPT ![E.c] = "idle"]
            /\ UNCHANGED <<sc, pausedM, fresh, halfres, cpool, sawp, must>>

\* a new transaction whose first statement was read inside the loop of the previous one: it did not pass wait_paused
InLoop == /\ E.ev = "inloop"
          /\ LET v == pausedM[cpool[E.c]] IN
               /\ Flag(v, "transaction_started_while_paused", [client |-> E.c, pool |-> cpool[E.c]])
               /\ seen' = seen \cup K({<<v, "transaction_started_while_paused">>})
          /\ UNCHANGED <<sc, pausedM, fresh, halfres, cpool, st, sawp, must>>

Gone == /\ E.ev = "gone" /\ st' = [st EXCEPT ![E.c] = "idle"]
        /\ UNCHANGED <<sc, seen, pausedM, fresh, halfres, cpool, sawp, must>>

PauseEv == /\ E.ev = "pause"
           /\ pausedM' = [pausedM EXCEPT ![E.pool] = TRUE] /\ fresh' = [fresh EXCEPT ![E.pool] = FALSE]
           /\ UNCHANGED <<sc, seen, halfres, cpool, st, sawp, must>>

ResumeStore == /\ E.ev = "resume_store"
               /\ pausedM' = [pausedM EXCEPT ![E.pool] = FALSE] /\ halfres' = [halfres EXCEPT ![E.pool] = TRUE]
               /\ must' = [c \in Clients |-> IF cpool[c] = E.pool THEN FALSE ELSE must[c]]
               /\ UNCHANGED <<sc, seen, fresh, cpool, st, sawp>>

ResumeNotify == /\ E.ev = "resume_notify"
                /\ LET v == ~halfres[E.pool] IN
                     /\ Flag(v, "notify_before_store", [pool |-> E.pool])
                     /\ seen' = seen \cup K({<<v, "notify_before_store">>})
                /\ halfres' = [halfres EXCEPT ![E.pool] = FALSE]
                /\ UNCHANGED <<sc, pausedM, fresh, cpool, st, sawp, must>>

PoolCreated == /\ E.ev = "pool_created" /\ fresh' = [fresh EXCEPT ![E.pool] = TRUE]
               /\ must' = [c \in Clients |-> IF cpool[c] = E.pool THEN FALSE ELSE must[c]]
               /\ UNCHANGED <<sc, seen, pausedM, halfres, cpool, st, sawp>>

\* End of the scenario, reached after every RESUME has been answered and a grace period has passed.
End == /\ E.ev = "end"
       /\ LET stuck == {c \in Clients : st[c] = "await" /\ ~pausedM[cpool[c]]}
              v == stuck # {}
          IN /\ Flag(v, "held_after_resume", [clients |-> stuck, recreated |-> {p \in Pools : fresh[p]}])
             /\ seen' = seen \cup K({<<v, "held_after_resume">>})
       /\ UNCHANGED <<sc, pausedM, fresh, halfres, cpool, st, sawp, must>>

Step == /\ l <= Len(Rec) /\ l' = l + 1
        /\ (Reset \/ Arrive \/ Created \/ ReadEv \/ Woken \/ Checkout \/ Gone \/ PauseEv \/ ResumeStore \/ ResumeNotify
            \/ PoolCreated \/ End \/ InLoop)
TSpec == TInit /\ [][Step]_tv
Accepted == /\ PrintT(<<"MATCHED", ToString(TLCGet("stats").diameter - 1)>>)
            /\ TLCGet("stats").diameter - 1 = Len(Rec)
=============================================================================
