------------------------------ MODULE CmdLang ------------------------------
(***************************************************************************)
(* The pooler's SET/SHOW command language (C13) as a set of abstract         *)
(* descriptors: a documented form, the spelling choices the documentation    *)
(* allows (letter case, optional quotes, optional trailing semicolon), the   *)
(* argument class, and at most one mutation that takes the string out of     *)
(* the language.  Class(d) is what the property demands for the string:      *)
(* "handle" (answered by the pooler, never forwarded), "forward" (sent to    *)
(* the server untouched) or "dontcare" (the documentation is silent).        *)
(* TLC enumerates the descriptors; the harness renders each as concrete text.*)
(***************************************************************************)
EXTENDS Integers, Sequences, FiniteSets, TLC, Json

Forms == {"set_key", "set_shard", "show_shard", "set_role", "show_role", "set_pr", "show_pr"}
Casings == {"upper", "lower", "mixed"}
Quotes == {"none", "both", "open_only", "close_only"}
Semis == {0, 1, 2}
Spaces == {"single", "double", "tab", "trailing_newline", "leading"}

ArgClasses(f) ==
  CASE f = "set_key"   -> {"zero", "small", "i32max", "u32max_plus", "i64max", "overflow_i64", "huge"}
    [] f = "set_shard" -> {"zero", "inrange", "equal_n", "large", "overflow_usize", "any_word"}
    [] f = "set_role"  -> {"primary", "replica", "any", "auto", "default"}
    [] f = "set_pr"    -> {"on", "off", "default"}
    [] OTHER           -> {"-"}

\* mutations: the result is NOT a documented command
ForwardMuts == {"trailing_word", "prefix_word", "second_statement", "missing_to", "misspelt_keyword",
                "trailing_comment", "leading_comment", "bad_argument", "negative_number", "in_parentheses",
                "embedded_in_select",
                \* the command text on a line of its own inside a larger (multi-line) query
                "line_after_statement", "line_before_statement", "line_in_block_comment", "line_in_string"}
Muts == {"none"} \cup ForwardMuts

B(x) == IF x THEN 1 ELSE 0

HasQuoteSlot(f) == f \in {"set_key", "set_shard", "set_role", "set_pr"}

Descriptors ==
  {d \in [form : Forms, casing : Casings, quote : Quotes, semi : Semis, space : Spaces, mut : Muts,
          arg : {"zero", "small", "i32max", "u32max_plus", "i64max", "overflow_i64", "huge", "inrange", "equal_n", "large",
                 "overflow_usize", "any_word", "primary", "replica", "any", "auto", "default", "on", "off", "-"}] :
     /\ d.arg \in ArgClasses(d.form)
     /\ (~HasQuoteSlot(d.form) => d.quote = "none")
     /\ (d.mut \in {"bad_argument", "negative_number"} => HasQuoteSlot(d.form))
     /\ (d.mut = "negative_number" => d.form \in {"set_key", "set_shard"})
     /\ (d.mut = "missing_to" => HasQuoteSlot(d.form))
     \* keep the product small: vary one spelling dimension at a time around the plain spelling
     /\ B(d.casing # "upper") + B(d.quote \notin {"none", "both"}) + B(d.semi = 2)
          + B(d.space # "single") + B(d.mut # "none") <= 1}

\* SET SERVER ROLE is documented with quotes only; the others with optional quotes.
QuoteDocumented(d) ==
  IF d.form = "set_role" THEN d.quote = "both"
  ELSE d.quote \in {"none", "both"}

Class(d) ==
  IF d.mut \in ForwardMuts THEN "forward"
  ELSE IF d.form = "set_role" /\ d.quote = "none" THEN "dontcare"
  ELSE IF ~QuoteDocumented(d) \/ d.semi = 2 \/ d.space \in {"double", "tab", "trailing_newline"} THEN "dontcare"
  ELSE "handle"

VARIABLE done
Init == done = FALSE
Next == ~done /\ done' = TRUE /\
        \A d \in Descriptors : PrintT(<<"DESCRIPTOR", ToJson([d |-> d, class |-> Class(d)])>>)
Spec == Init /\ [][Next]_done
=============================================================================
