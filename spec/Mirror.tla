------------------------------- MODULE Mirror -------------------------------
(***************************************************************************)
(* Mirroring (src/mirrors.rs, Server::send / mirror_send, pool.rs mirror     *)
(* address attachment).                                                      *)
(*                                                                           *)
(* A server connection that has mirrors owns one bounded channel (Cap = 10   *)
(* in the code) and one background task per mirror.  Server::send first      *)
(* offers the whole buffer to every channel with try_send (full or closed    *)
(* channel: the buffer is dropped for that mirror) and then writes it to the *)
(* mirrored server; nothing on the client path ever waits for a mirror.  The *)
(* mirror task owns a one-connection pool, takes buffers from the channel    *)
(* one at a time, writes each whole to its mirror and discards whatever the  *)
(* mirror answers.                                                            *)
(*                                                                           *)
(* One action per step of the code:                                          *)
(*   Offer(s)        mirror_send: try_send to the channels of s's mirrors    *)
(*   Write(s)        write_all_flush to the mirrored server                  *)
(*   Reply(s)        the mirrored server answers, the client gets the reply  *)
(*   MConnect(m)     mirror task: pool.get() succeeded                       *)
(*   MDeliver(m)     mirror task: bytes_rx.recv() + server.send              *)
(*   MDiscard(m)     mirror task: server.recv() (reply thrown away)          *)
(*   MBreak(m)       the mirror connection breaks (mark_bad, next get())     *)
(*   Fault(m, f)     environment: the mirror changes behaviour               *)
(*   Recycle(s)      the server connection is dropped and a new one opened:  *)
(*                   its mirror tasks exit, what is queued is lost           *)
(***************************************************************************)
EXTENDS Integers, Sequences, FiniteSets, TLC

CONSTANTS Servers,      \* mirrored servers
          Mirrors,      \* mirror ids
          Target,       \* [Mirrors -> Servers]
          Cap,          \* channel capacity
          MaxReq,       \* requests per behaviour
          MaxEnv,       \* fault changes and recycles per behaviour
          Dev           \* deviations (model negative controls)

Modes == {"up", "refuse", "hang_startup", "stall", "slow", "close_mid", "errors", "garbage"}
Connectable == {"up", "stall", "slow", "close_mid", "errors", "garbage"}

VARIABLES pc,        \* client: "idle" | "offer" | "write" | "await" | "blocked"
          cur,       \* server of the request in flight
          nreq,      \* requests issued
          sent,      \* [Servers -> Seq(Nat)] requests written to the server
          chan,      \* [Mirrors -> Seq(Nat)]
          mode,      \* [Mirrors -> Modes]
          mconn,     \* [Mirrors -> BOOLEAN] the mirror task holds a connection
          got,       \* [Mirrors -> Seq(Nat)] requests a mirror received, in order
          unread,    \* [Mirrors -> Nat] mirror replies not yet discarded
          replies,   \* Seq(<<request, source>>) what the client received
          ref,       \* the same for the system without mirrors (ghost)
          dropped,   \* [Mirrors -> Nat] buffers lost to a full channel
          nenv       \* environment steps taken
vars == <<pc, cur, nreq, sent, chan, mode, mconn, got, unread, replies, ref, dropped, nenv>>

MirrorsOf(s) == IF "wrong_target" \in Dev THEN Mirrors ELSE {m \in Mirrors : Target[m] = s}

Init ==
  /\ pc = "idle" /\ cur \in Servers /\ nreq = 0
  /\ sent = [s \in Servers |-> <<>>]
  /\ chan = [m \in Mirrors |-> <<>>]
  /\ mode \in [Mirrors -> Modes]
  /\ mconn = [m \in Mirrors |-> FALSE]
  /\ got = [m \in Mirrors |-> <<>>]
  /\ unread = [m \in Mirrors |-> 0]
  /\ replies = <<>> /\ ref = <<>>
  /\ dropped = [m \in Mirrors |-> 0]
  /\ nenv = 0

---------------------------------------------------------------------------
(* client path *)
Start(s) ==
  /\ pc = "idle" /\ nreq < MaxReq
  /\ nreq' = nreq + 1 /\ cur' = s /\ pc' = "offer"
  /\ UNCHANGED <<sent, chan, mode, mconn, got, unread, replies, ref, dropped, nenv>>

Full(m) == Len(chan[m]) >= Cap

Offer ==
  /\ pc = "offer"
  /\ IF "blocking_send" \in Dev /\ \E m \in MirrorsOf(cur) : Full(m)
     THEN /\ pc' = "blocked" /\ UNCHANGED <<chan, dropped, nenv>>          \* send().await on a full channel
     ELSE /\ pc' = "write"
          /\ chan' = [m \in Mirrors |-> IF m \in MirrorsOf(cur) /\ (~Full(m) \/ "unbounded_channel" \in Dev)
                                        THEN Append(chan[m], nreq) ELSE chan[m]]
          /\ dropped' = [m \in Mirrors |-> IF m \in MirrorsOf(cur) /\ Full(m) /\ "unbounded_channel" \notin Dev
                                           THEN dropped[m] + 1 ELSE dropped[m]]
  /\ UNCHANGED <<cur, nreq, sent, mode, mconn, got, unread, replies, ref, nenv>>

Unblock ==
  /\ pc = "blocked" /\ \A m \in MirrorsOf(cur) : ~Full(m)
  /\ pc' = "offer"
  /\ UNCHANGED <<cur, nreq, sent, chan, mode, mconn, got, unread, replies, ref, dropped, nenv>>

Write ==
  /\ pc = "write"
  /\ sent' = [sent EXCEPT ![cur] = Append(@, nreq)]
  /\ pc' = "await"
  /\ UNCHANGED <<cur, nreq, chan, mode, mconn, got, unread, replies, ref, dropped, nenv>>

Reply ==
  /\ pc = "await"
  /\ replies' = Append(replies, <<nreq, cur>>)
  /\ ref' = Append(ref, <<nreq, cur>>)
  /\ pc' = "idle"
  /\ UNCHANGED <<cur, nreq, sent, chan, mode, mconn, got, unread, dropped, nenv>>

---------------------------------------------------------------------------
(* mirror task *)
MConnect(m) ==
  /\ ~mconn[m] /\ mode[m] \in Connectable
  /\ mconn' = [mconn EXCEPT ![m] = TRUE]
  /\ unread' = [unread EXCEPT ![m] = 0]
  /\ UNCHANGED <<pc, cur, nreq, sent, chan, mode, got, replies, ref, dropped, nenv>>

MDeliver(m) ==
  /\ mconn[m] /\ chan[m] # <<>> /\ mode[m] # "stall"
  /\ chan' = [chan EXCEPT ![m] = Tail(@)]
  /\ IF mode[m] = "close_mid"
     THEN \* the mirror hangs up: the buffer may or may not have arrived whole, the connection is gone
          /\ \/ got' = [got EXCEPT ![m] = Append(@, Head(chan[m]))]
             \/ got' = got
          /\ mconn' = [mconn EXCEPT ![m] = FALSE]
          /\ unread' = unread
     ELSE /\ got' = [got EXCEPT ![m] = Append(@, Head(chan[m]))]
          /\ mconn' = mconn
          /\ unread' = [unread EXCEPT ![m] = @ + 1]
  /\ UNCHANGED <<pc, cur, nreq, sent, mode, replies, ref, dropped, nenv>>

\* the reply of a mirror is read and thrown away; the deviation hands it to the client
MDiscard(m) ==
  /\ mconn[m] /\ unread[m] > 0
  /\ unread' = [unread EXCEPT ![m] = @ - 1]
  /\ replies' = IF "mirror_reply_forwarded" \in Dev THEN Append(replies, <<0, m>>) ELSE replies
  /\ UNCHANGED <<pc, cur, nreq, sent, chan, mode, mconn, got, ref, dropped, nenv>>

MBreak(m) ==
  /\ mconn[m] /\ mode[m] \in {"refuse", "hang_startup", "close_mid", "garbage"}
  /\ mconn' = [mconn EXCEPT ![m] = FALSE]
  /\ UNCHANGED <<pc, cur, nreq, sent, chan, mode, got, unread, replies, ref, dropped, nenv>>

Fault(m, f) ==
  /\ mode[m] # f /\ nenv < MaxEnv
  /\ mode' = [mode EXCEPT ![m] = f] /\ nenv' = nenv + 1
  /\ UNCHANGED <<pc, cur, nreq, sent, chan, mconn, got, unread, replies, ref, dropped>>

\* the server connection is replaced: its mirror tasks get the exit signal, their queues are gone
Recycle(s) ==
  /\ pc = "idle" /\ nenv < MaxEnv
  /\ chan' = [m \in Mirrors |-> IF Target[m] = s THEN <<>> ELSE chan[m]]
  /\ mconn' = [m \in Mirrors |-> IF Target[m] = s THEN FALSE ELSE mconn[m]]
  /\ nenv' = nenv + 1
  /\ UNCHANGED <<pc, cur, nreq, sent, mode, got, unread, replies, ref, dropped>>

ClientStep == (\E s \in Servers : Start(s)) \/ Offer \/ Unblock \/ Write \/ Reply
MirrorStep == \E m \in Mirrors : MConnect(m) \/ MDeliver(m) \/ MDiscard(m) \/ MBreak(m)
EnvStep == (\E m \in Mirrors, f \in Modes : Fault(m, f)) \/ (\E s \in Servers : Recycle(s))
Next == ClientStep \/ MirrorStep \/ EnvStep

\* fairness for the client path and the mirrored server only: a mirror owes nobody any progress
Spec == Init /\ [][Next]_vars /\ WF_vars(ClientStep)

---------------------------------------------------------------------------
Range(q) == {q[i] : i \in DOMAIN q}
Increasing(q) == \A i, j \in DOMAIN q : i < j => q[i] < q[j]

TypeOK == /\ pc \in {"idle", "offer", "write", "await", "blocked"}
          /\ \A m \in Mirrors : Len(chan[m]) <= MaxReq

\* what a mirror received is a subsequence of what was offered for its own server, each request once, in order
MirrorGetsCopies ==
  \A m \in Mirrors : /\ Increasing(got[m])
                     /\ Range(got[m]) \subseteq Range(sent[Target[m]]) \cup
                           (IF pc \in {"write"} /\ cur = Target[m] THEN {nreq} ELSE {})
\* the client sees exactly what it would see without mirrors
ClientUnaffected == replies = ref
\* the client path never waits for a mirror
NeverWaits == pc # "blocked"
Bounded == \A m \in Mirrors : Len(chan[m]) <= Cap
\* every request gets its reply no matter what the mirrors do (checked under Spec's fairness)
Progress == \A n \in 1..MaxReq : [](nreq = n => <>(Len(replies) >= n))
=============================================================================
