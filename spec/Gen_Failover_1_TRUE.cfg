SPECIFICATION GSpec
CONSTANTS
  Replicas = {"r1"}
  HasPrimary = TRUE
  BanTime = 2
  MaxOps = 6
  Dev = {}
INVARIANT Emit
