SPECIFICATION GSpec
CONSTANTS
  Clients = {"A", "B"}
  Conns = {"s1"}
  Tracked = {"app", "tz"}
  Untracked = {"wm"}
  Values = {"d", "v1", "vq"}
  Default = "d"
  NONE = NONE
  MaxOps = 9
  Dev = {}
INVARIANT Emit
