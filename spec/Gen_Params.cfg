SPECIFICATION GSpec
CONSTANTS
  Clients = {"A", "B"}
  Conns = {"s1"}
  Tracked = {"app", "tz"}
  Untracked = {"wm"}
  Values = {"d", "v1", "vc", "vq"}
  Default = "d"
  NONE = NONE
  MaxOps = 11
  Dev = {}
INVARIANT Emit
