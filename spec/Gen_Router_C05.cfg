SPECIFICATION GSpec
CONSTANTS
  Depth = 3
  GenClasses = {"ddl", "delete", "insert", "locking_read", "multi_rr", "multi_rtx", "multi_rw", "multi_txr", "multi_txw", "multi_wr", "read", "select_into", "txstart", "unparseable", "update", "utility", "writing_cte"}
  GenKeys = {}
  GenShows = {}
INVARIANT Emit
