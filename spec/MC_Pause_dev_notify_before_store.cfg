SPECIFICATION Spec
CONSTANTS
  Clients = {c1, c2}
  MaxOps = 5
  Dev = {"notify_before_store"}
INVARIANT HeldWhilePaused
PROPERTY AllProceed
