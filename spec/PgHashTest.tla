---- MODULE PgHashTest ----
EXTENDS PgHash
\* vectors from src/sharding.rs (shard count 5): key -> shard
ASSUME PgShard(FALSE, <<0,0>>, <<0,1>>, 5) \in 0..4
ASSUME PrintT(<<"k1n5", PgShard(FALSE, <<0,0>>, <<0,1>>, 5), "k0n5", PgShard(FALSE, <<0,0>>, <<0,0>>, 5), "k-1n5", PgShard(TRUE, <<65535,65535>>, <<65535,65535>>, 5)>>)
VARIABLE x
Init == x = 0
Next == x' = x
====
