---- MODULE PgHash ----
EXTENDS Integers, Sequences, Bitwise, TLC
W == 65536
\* u32 as <<hi16, lo16>>
U32(hi, lo) == <<hi, lo>>
Add32(a, b) == LET lo == a[2] + b[2]
                   hi == a[1] + b[1] + (lo \div W)
               IN <<hi % W, lo % W>>
Sub32(a, b) == LET lo == a[2] - b[2]
                   br == IF lo < 0 THEN 1 ELSE 0
                   hi == a[1] - b[1] - br
               IN <<(hi + W) % W, (lo + W) % W>>
Xor32(a, b) == <<a[1] ^^ b[1], a[2] ^^ b[2]>>
Not32(a) == <<65535 - a[1], 65535 - a[2]>>
Pow2(k) == CASE k = 0 -> 1 [] k = 1 -> 2 [] k = 2 -> 4 [] k = 3 -> 8 [] k = 4 -> 16 [] k = 5 -> 32
             [] k = 6 -> 64 [] k = 7 -> 128 [] k = 8 -> 256 [] k = 9 -> 512 [] k = 10 -> 1024
             [] k = 11 -> 2048 [] k = 12 -> 4096 [] k = 13 -> 8192 [] k = 14 -> 16384 [] k = 15 -> 32768
RotS(x, k) == \* 0 < k < 16
   LET p == Pow2(k) q == Pow2(16 - k)
   IN <<((x[1] * p) % W) + (x[2] \div q), ((x[2] * p) % W) + (x[1] \div q)>>
Rot32(x, k) == IF k = 0 THEN x ELSE IF k = 16 THEN <<x[2], x[1]>>
               ELSE IF k < 16 THEN RotS(x, k) ELSE RotS(<<x[2], x[1]>>, k - 16)
Mix(a0, b0, c0) ==
  LET a1 == Xor32(Sub32(a0, c0), Rot32(c0, 4))   c1 == Add32(c0, b0)
      b1 == Xor32(Sub32(b0, a1), Rot32(a1, 6))   a2 == Add32(a1, c1)
      c2 == Xor32(Sub32(c1, b1), Rot32(b1, 8))   b2 == Add32(b1, a2)
      a3 == Xor32(Sub32(a2, c2), Rot32(c2, 16))  c3 == Add32(c2, b2)
      b3 == Xor32(Sub32(b2, a3), Rot32(a3, 19))  a4 == Add32(a3, c3)
      c4 == Xor32(Sub32(c3, b3), Rot32(b3, 4))   b4 == Add32(b3, a4)
  IN <<a4, b4, c4>>
Final(a0, b0, c0) ==
  LET c1 == Sub32(Xor32(c0, b0), Rot32(b0, 14))
      a1 == Sub32(Xor32(a0, c1), Rot32(c1, 11))
      b1 == Sub32(Xor32(b0, a1), Rot32(a1, 25))
      c2 == Sub32(Xor32(c1, b1), Rot32(b1, 16))
      a2 == Sub32(Xor32(a1, c2), Rot32(c2, 4))
      b2 == Sub32(Xor32(b1, a2), Rot32(a2, 14))
      c3 == Sub32(Xor32(c2, b2), Rot32(b2, 24))
  IN <<a2, b2, c3>>
\* 0x9e3779b9 + 4 + 3923095 = 0x9e3779b9 + 0x3BDC9B = 0x9E735654 ; check: 0x9e3779b9=2654435769; +3923099 = 2658358868 = 0x9E735654
Init32 == U32(40563, 22100)  \* 0x9E73, 0x5654
\* seed 0x7A5B22367996DCFD: hi32 = 0x7A5B2236, lo32 = 0x7996DCFD
SeedHi == U32(31323, 8758)   \* 0x7A5B, 0x2236
SeedLo == U32(31126, 56573)  \* 0x7996, 0xDCFD
HashU32Ext(k) ==
  LET m == Mix(Add32(Init32, SeedHi), Add32(Init32, SeedLo), Init32)
      f == Final(Add32(m[1], k), m[2], m[3])
  IN <<f[2][1], f[2][2], f[3][1], f[3][2]>>   \* u64 as 4 limbs, big-endian: b:c
\* hash_combine64(0, h) = h + 0x49a0f4dd15e5a8e3  (a = 0)
C64 == <<18848, 62685, 5605, 43235>>  \* 0x49a0 0xf4dd 0x15e5 0xa8e3
Add64(x, y) == LET l4 == x[4] + y[4]
                   l3 == x[3] + y[3] + (l4 \div W)
                   l2 == x[2] + y[2] + (l3 \div W)
                   l1 == x[1] + y[1] + (l2 \div W)
               IN <<l1 % W, l2 % W, l3 % W, l4 % W>>
Mod64(x, n) == LET r1 == x[1] % n
                   r2 == (r1 * W + x[2]) % n
                   r3 == (r2 * W + x[3]) % n
               IN (r3 * W + x[4]) % n
\* key as <<neg, hi32 as U32, lo32 as U32>> : two's complement halves of the i64
Fold(neg, hi, lo) == Xor32(lo, IF neg THEN Not32(hi) ELSE hi)
PgShard(neg, hi, lo, n) == Mod64(Add64(HashU32Ext(Fold(neg, hi, lo)), C64), n)
====
