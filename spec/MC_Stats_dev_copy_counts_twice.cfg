SPECIFICATION Spec
CONSTANTS
  Clients = {c1, c2}
  MaxOps = 6
  Dev = {"copy_counts_twice"}
INVARIANTS RowsAreClients StatesTrue CountsTrue
