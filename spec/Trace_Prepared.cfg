SPECIFICATION TSpec
CONSTANTS
  Clients = {"A", "B"}
  Conns = {"s1", "s2"}
  Names = {"n1", "n2"}
  Stmts = {"q1", "q2", "q3", "bad"}
  BAD = "bad"
  NONE = NONE
  MaxBatches = 0
  MaxLen = 0
  Dev = {}
POSTCONDITION Accepted
CHECK_DEADLOCK FALSE
