---------------------------- MODULE Gen_Prepared ----------------------------
EXTENDS Prepared, Json
VARIABLE hist
gv == <<vars, hist>>
GNext == \E c \in Clients, s \in Conns, b \in Batches :
           /\ RunBatch(c, s, b)
           /\ hist' = Append(hist, [c |-> c, s |-> s, items |-> [i \in 1..Len(b) |-> b[i]]])
GSpec == Init /\ hist = <<>> /\ [][GNext]_gv
Emit == (nb = MaxBatches) => PrintT(<<"SCENARIO", ToJson(hist)>>)
=============================================================================
