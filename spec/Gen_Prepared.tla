---------------------------- MODULE Gen_Prepared ----------------------------
EXTENDS Prepared, Json
VARIABLE hist
gv == <<vars, hist>>
GNext == \/ \E c \in Clients, s \in Conns, b \in Batches :
              /\ RunBatch(c, s, b)
              /\ hist' = Append(hist, [c |-> c, s |-> s, items |-> [i \in 1..Len(b) |-> b[i]]])
         \* (at most one simple-protocol PREPARE per program)
         \* (w only gives this step some weight against the thousands of batches when TLC samples behaviours)
         \/ \E c \in Clients, s \in Conns, w \in 1..150 :
              /\ ~\E i \in 1..Len(hist) : hist[i].items[1].k = "SP"
              /\ SqlPrepare(c, s)
              /\ hist' = Append(hist, [c |-> c, s |-> s, items |-> <<[k |-> "SP", n |-> "adhoc"]>>])
GSpec == Init /\ hist = <<>> /\ [][GNext]_gv
Emit == (nb = MaxBatches) => PrintT(<<"SCENARIO", ToJson(hist)>>)
=============================================================================
