---------------------------- MODULE Gen_Prepared ----------------------------
EXTENDS Prepared, Json
VARIABLE hist
gv == <<vars, hist>>
GNext == \/ \E c \in Clients, s \in Conns, b \in Batches :
              /\ RunBatch(c, s, b)
              /\ hist' = Append(hist, [c |-> c, s |-> s, items |-> [i \in 1..Len(b) |-> b[i]]])
         \* (at most one simple-protocol PREPARE per program)
         \* (w only gives this step some weight against the thousands of batches when TLC samples behaviours)
         \/ \E c \in Clients, s \in Conns, w \in 1..150 :
              /\ ~\E i \in 1..Len(hist) : hist[i].items[1].k = "SP"
              /\ SqlPrepare(c, s)
              /\ hist' = Append(hist, [c |-> c, s |-> s, items |-> <<[k |-> "SP", n |-> "adhoc"]>>])
GSpec == Init /\ hist = <<>> /\ [][GNext]_gv
Emit == (nb = MaxBatches) => PrintT(<<"SCENARIO", ToJson(hist)>>)

\* ---- a family enumerated instead of sampled (Gen_Prepared_lru.cfg): two single-Parse batches put two statements on a
\* connection, then the client of the first one sends a batch that binds its (older) statement and parses a third one.
\* With a per-connection cache of two the pooler has to evict - the statement this batch has not just used.
LruPrefix == \A i \in 1..Len(hist) : i <= 2 => (Len(hist[i].items) = 1 /\ hist[i].items[1].k = "P")
LruShape ==
  /\ Len(hist) = 3
  /\ hist[1].items[1].q # hist[2].items[1].q
  /\ hist[3].c = hist[1].c
  /\ Len(hist[3].items) = 2
  /\ hist[3].items[1].k = "BE" /\ hist[3].items[1].n = hist[1].items[1].n
  /\ (hist[2].c = hist[1].c => hist[2].items[1].n # hist[1].items[1].n)
  /\ hist[3].items[2].k = "P" /\ hist[3].items[2].q \notin {hist[1].items[1].q, hist[2].items[1].q, BAD}
EmitLru == (nb = MaxBatches /\ LruShape) => PrintT(<<"SCENARIO", ToJson(hist)>>)
=============================================================================
