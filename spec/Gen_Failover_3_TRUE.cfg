SPECIFICATION GSpec
CONSTANTS
  Replicas = {"r1", "r2", "r3"}
  HasPrimary = TRUE
  BanTime = 2
  MaxOps = 6
  Dev = {}
INVARIANT Emit
