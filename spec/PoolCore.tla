------------------------------ MODULE PoolCore ------------------------------
(***************************************************************************)
(* pgcat: clients, server connections of one address (one bb8 pool), the   *)
(* client/server cancel map, and the PostgreSQL session behind each server  *)
(* connection.  One action per critical section of Client::handle           *)
(* (src/client.rs), Server::recv / checkin_cleanup (src/server.rs) and      *)
(* ServerPool::has_broken (src/pool.rs).                                    *)
(*                                                                          *)
(* Pooler BELIEF (what pgcat tracks: in_transaction, in_copy_mode,          *)
(* data_available, bad, cleanup_state) and backend TRUTH (what the          *)
(* PostgreSQL session really is) are separate variables; the properties     *)
(* C01 C02 C04 C10 are stated on the truth.                                 *)
(***************************************************************************)
EXTENDS Integers, Sequences, FiniteSets, TLC

CONSTANTS Clients,    \* client identities
          Conns,      \* server connection identities (slots of the bb8 pool)
          NONE,
          PoolSize,   \* pool_size of the user
          TxMode,     \* TRUE: transaction mode, FALSE: session mode
          Dev,        \* enabled deviations (as-built behaviours that break the design)
          MaxMsgs     \* model-checking bound: client messages per client

VARIABLES pc,         \* client program counter
          held,       \* client -> conn it has checked out, or NONE
          pend,       \* client -> message kind being processed
          nmsg,       \* client -> messages sent so far (bound)
          vanished,   \* clients whose socket died (TCP reset) after their last message; the pooler has not noticed yet
          alive,      \* conn exists (TCP session to the server is open)
          idle,       \* conn sits in the bb8 idle queue
          bTx, bCopy, bData, bad, dirty,   \* pooler belief per conn
          tTx, tCopy, tUnread, tDirt, tPend, last, \* backend truth per conn (tPend: SET inside the open transaction)
          cmap,       \* cancel map: client -> conn
          viol,       \* monitor: set of violation records
          late        \* (deviation only) cancel requests the pooler keeps retrying: <<client, conn looked up>>

cvars == <<pc, held, pend, nmsg, vanished>>
bvars == <<alive, idle, bTx, bCopy, bData, bad, dirty>>
tvars == <<tTx, tCopy, tUnread, tDirt, tPend, last>>
vars  == <<cvars, bvars, tvars, cmap, viol, late>>

\* Client messages (abstract kinds).
\*   begin/commit/stmt/fail : statements; fail raises an error on the server
\*   set                    : SET outside LOCAL scope (session state)
\*   copyin                 : COPY .. FROM STDIN (server answers CopyInResponse, no ReadyForQuery)
\*   copyin2                : COPY .. FROM STDIN; <second statement whose reply needs two recv() calls>
\*   copydone               : CopyDone
\*   big                    : statement whose reply exceeds the 8196-byte buffer (two recv() calls)
\*   prep                   : PREPARE (session state that is NOT undone by ROLLBACK)
\*   slow                   : statement that runs longer than the pool's statement_timeout
\*   local                  : a Sync-terminated batch the pooler answers itself (a lone Sync, or only a Close of a cached
\*                            statement): nothing is sent to the server, the release decision is taken as usual
\*   reset1                 : RESET of ONE setting (not the one a "set" changed): the session is as dirty as before
FirstKinds == {"begin", "stmt", "fail", "set", "prep", "copyin", "copyin2", "big", "slow", "local", "reset1"}
\*   copyfail               : CopyFail - the COPY ends with an ErrorResponse instead of CommandComplete
Kinds == FirstKinds \cup {"commit", "copydone", "copyfail"}

Init ==
  /\ pc = [c \in Clients |-> "off"] /\ held = [c \in Clients |-> NONE]
  /\ pend = [c \in Clients |-> NONE] /\ nmsg = [c \in Clients |-> 0] /\ vanished = {}
  /\ alive = [s \in Conns |-> FALSE] /\ idle = [s \in Conns |-> FALSE]
  /\ bTx = [s \in Conns |-> FALSE] /\ bCopy = [s \in Conns |-> FALSE]
  /\ bData = [s \in Conns |-> FALSE] /\ bad = [s \in Conns |-> FALSE]
  /\ dirty = [s \in Conns |-> FALSE]
  /\ tTx = [s \in Conns |-> "I"] /\ tCopy = [s \in Conns |-> "no"]
  /\ tUnread = [s \in Conns |-> FALSE] /\ tDirt = [s \in Conns |-> NONE]
  /\ tPend = [s \in Conns |-> NONE]
  /\ last = [s \in Conns |-> NONE]
  /\ cmap = [c \in Clients |-> NONE]
  /\ viol = {} /\ late = {}

NAlive == Cardinality({s \in Conns : alive[s]})

-----------------------------------------------------------------------------
\* Client connects / sends the first message of a transaction (outer loop of handle()).
Connect(c) ==
  /\ pc[c] = "off" /\ pc' = [pc EXCEPT ![c] = "idle"]
  /\ UNCHANGED <<vanished, held, pend, nmsg, bvars, tvars, cmap, viol>>

SendFirst(c, k) ==
  /\ pc[c] = "idle" /\ nmsg[c] < MaxMsgs /\ k \in FirstKinds
  /\ pc' = [pc EXCEPT ![c] = "wait"] /\ pend' = [pend EXCEPT ![c] = k]
  /\ nmsg' = [nmsg EXCEPT ![c] = @ + 1]
  /\ UNCHANGED <<vanished, held, bvars, tvars, cmap, viol>>

\* A brand-new server connection (ServerPool::connect).
Fresh(s) ==
  /\ alive' = [alive EXCEPT ![s] = TRUE] /\ idle' = [idle EXCEPT ![s] = FALSE]
  /\ bTx' = [bTx EXCEPT ![s] = FALSE] /\ bCopy' = [bCopy EXCEPT ![s] = FALSE]
  /\ bData' = [bData EXCEPT ![s] = FALSE] /\ bad' = [bad EXCEPT ![s] = FALSE]
  /\ dirty' = [dirty EXCEPT ![s] = FALSE]
  /\ tTx' = [tTx EXCEPT ![s] = "I"] /\ tCopy' = [tCopy EXCEPT ![s] = "no"]
  /\ tUnread' = [tUnread EXCEPT ![s] = FALSE] /\ tDirt' = [tDirt EXCEPT ![s] = NONE]
  /\ tPend' = [tPend EXCEPT ![s] = NONE]
  /\ last' = [last EXCEPT ![s] = NONE]

\* pool.get(): an idle connection if there is one, else a new one while below pool_size.
\* Server::claim() enters the cancel map.
Checkout(c, s) ==
  /\ pc[c] = "wait"
  /\ \/ /\ alive[s] /\ idle[s]
        /\ idle' = [idle EXCEPT ![s] = FALSE]
        /\ UNCHANGED <<alive, bTx, bCopy, bData, bad, dirty, tvars>>
     \/ /\ ~alive[s] /\ (\A t \in Conns : ~(alive[t] /\ idle[t])) /\ NAlive < PoolSize
        /\ Fresh(s)
  /\ held' = [held EXCEPT ![c] = s]
  \* (deviation claim_unmaps_previous: claim() also removes whatever entry the connection's previous user has - even when
  \* that client is using another connection by now)
  /\ cmap' = [x \in Clients |-> IF x = c THEN s
                                ELSE IF "claim_unmaps_previous" \in Dev /\ x = last[s] THEN NONE ELSE cmap[x]]
  /\ pc' = [pc EXCEPT ![c] = "fwd"]
  /\ UNCHANGED <<vanished, pend, nmsg, viol>>

\* No connection within connect_timeout: the client gets an error and stays usable.
CheckoutTimeout(c) ==
  /\ pc[c] = "wait" /\ (\A t \in Conns : ~(alive[t] /\ idle[t])) /\ NAlive >= PoolSize
  /\ pc' = [pc EXCEPT ![c] = IF c \in vanished THEN "gone" ELSE "idle"] /\ pend' = [pend EXCEPT ![c] = NONE]
  /\ UNCHANGED <<vanished, held, nmsg, bvars, tvars, cmap, viol>>

-----------------------------------------------------------------------------
\* The PostgreSQL session: effect of client statement k on connection s, and what
\* the pooler learns from the reply (Server::recv).
\* reads = number of recv() calls the pooler makes for this request.
TxAfter(s, k) ==
  IF tCopy[s] = "in" /\ k # "copydone"
  THEN (IF tTx[s] = "I" THEN "I" ELSE "E")      \* CopyFail or a non-COPY message ends COPY IN with an error
  ELSE CASE k = "begin"  -> IF tTx[s] = "I" THEN "T" ELSE tTx[s]
         [] k = "commit" -> "I"
         [] k = "fail"   -> IF tTx[s] = "I" THEN "I" ELSE "E"
         [] OTHER        -> tTx[s]

CopyAfter(s, k) ==
  IF k \in {"copyin", "copyin2"} /\ tCopy[s] = "no" /\ tTx[s] # "E"
  THEN "in" ELSE "no"

\* Exec: backend executes k for client c on s.  `loops` says whether the pooler keeps
\* calling recv() while data_available (send_and_receive_loop does; the CopyDone arm of the
\* as-built code does not).
Exec(c, s, k, loops) ==
  LET handoff == last[s] # NONE /\ last[s] # c
      unclean == tTx[s] # "I" \/ tCopy[s] # "no" \/ tUnread[s] \/ (tDirt[s] # NONE /\ tDirt[s] # c)
      ntx     == TxAfter(s, k)
      ncopy   == CopyAfter(s, k)
      two     == \/ k = "big" /\ tCopy[s] = "no" /\ tTx[s] # "E"
                 \/ k = "copydone" /\ tCopy[s] = "in" /\ tUnread[s]
      \* while COPY IN started by copyin2 is open, tUnread marks "continuation pending"
      unread  == IF k = "copyin2" /\ ncopy = "in" THEN TRUE
                 ELSE IF two THEN ~loops
                 ELSE IF k \in {"copydone", "copyfail"} THEN FALSE
                 ELSE IF tCopy[s] = "in" THEN FALSE
                 ELSE tUnread[s]
  IN /\ viol' = IF handoff /\ unclean
                THEN viol \cup {<<"dirty_handoff", tTx[s], tCopy[s], tUnread[s], tDirt[s] # NONE>>}
                ELSE viol
     /\ tTx' = [tTx EXCEPT ![s] = ntx]
     /\ tCopy' = [tCopy EXCEPT ![s] = ncopy]
     /\ tUnread' = [tUnread EXCEPT ![s] = unread]
     \* SET outside a transaction takes effect at once; inside one it is pending until COMMIT
     \* (kept) or ROLLBACK / error (dropped)
     /\ tDirt' = [tDirt EXCEPT ![s] =
                    IF k = "set" /\ tTx[s] = "I" /\ tCopy[s] = "no" THEN c
                    ELSE IF k = "prep" /\ tTx[s] # "E" /\ tCopy[s] = "no" THEN c
                    ELSE IF k = "commit" /\ tTx[s] = "T" /\ tPend[s] # NONE THEN tPend[s]
                    ELSE IF handoff /\ ~unclean THEN NONE ELSE @]
     /\ tPend' = [tPend EXCEPT ![s] =
                    IF k = "set" /\ tTx[s] = "T" /\ tCopy[s] = "no" THEN c
                    ELSE IF ntx = "I" THEN NONE ELSE @]
     /\ last' = [last EXCEPT ![s] = c]
     \* belief follows the last ReadyForQuery seen; CopyInResponse carries none
     \* (deviation failed_tx_counts_as_idle: status E is taken for "transaction over")
     /\ bTx' = [bTx EXCEPT ![s] = IF ncopy = "in" THEN @
                                  ELSE IF two /\ ~loops THEN @
                                  ELSE IF "failed_tx_counts_as_idle" \in Dev THEN ntx = "T"
                                  ELSE ntx # "I"]
     \* an ErrorResponse ends COPY like CommandComplete does (deviation error_keeps_copy_mode: it does not)
     /\ bCopy' = [bCopy EXCEPT ![s] = IF two /\ ~loops THEN TRUE
                                      ELSE IF "error_keeps_copy_mode" \in Dev /\ tCopy[s] = "in" /\ k # "copydone" THEN @
                                      ELSE ncopy = "in"]
     /\ bData' = [bData EXCEPT ![s] = two /\ ~loops]
     \* cleanup_state: marked on every SET (deviation: only when believed outside a transaction)
     \* (deviation reset_clears_dirty: the CommandComplete tag RESET - also that of RESET <one setting> - clears the mark)
     /\ dirty' = [dirty EXCEPT ![s] = IF k = "reset1" /\ "reset_clears_dirty" \in Dev THEN FALSE ELSE
                                          @ \/ (k = "set" /\ tCopy[s] = "no" /\ tTx[s] # "E"
                                              /\ (~bTx[s] \/ "set_in_tx_not_marked" \notin Dev))
                                          \/ (k = "prep" /\ tCopy[s] = "no" /\ tTx[s] # "E"
                                              /\ "prepare_not_marked" \notin Dev)]

\* Release decision of the inner loop (client.rs: Q arm, S arm, c|f arm).
ReleaseNow(s, k) ==
  /\ (TxMode \/ "session_mode_releases" \in Dev)
  /\ ~bTx'[s]
  /\ IF k \in {"copydone", "copyfail"}
     THEN ("copydone_no_copy_check" \in Dev) \/ ~bCopy'[s]
     ELSE ~bCopy'[s]

Forward(c) ==
  /\ pc[c] = "fwd" /\ pend[c] # "slow" /\ c \notin vanished
  /\ LET s == held[c]
         k == pend[c]
         loops == (k \notin {"copydone", "copyfail"}) \/ ("copydone_single_recv" \notin Dev)
     IN /\ IF k = "local" THEN UNCHANGED <<bTx, bCopy, bData, dirty, tvars, viol>> ELSE Exec(c, s, k, loops)
        \* deviation local_batch_keeps_server: the locally answered batch skips the release decision
        /\ pc' = [pc EXCEPT ![c] = IF ReleaseNow(s, k) /\ ~(k = "local" /\ "local_batch_keeps_server" \in Dev)
                                   THEN "cleanup" ELSE "intx"]
  /\ UNCHANGED <<vanished, held, pend, nmsg, alive, idle, bad, cmap>>

NextMsg(c, k) ==
  /\ pc[c] = "intx" /\ nmsg[c] < MaxMsgs /\ k \in Kinds
  /\ (k \in {"copydone", "copyfail"} => bCopy[held[c]])
  /\ pend' = [pend EXCEPT ![c] = k] /\ nmsg' = [nmsg EXCEPT ![c] = @ + 1]
  /\ pc' = [pc EXCEPT ![c] = "fwd"]
  /\ UNCHANGED <<vanished, held, bvars, tvars, cmap, viol>>

-----------------------------------------------------------------------------
\* Server::checkin_cleanup: ROLLBACK when believed in a transaction, RESET/DEALLOCATE when
\* marked dirty; COPY mode only produces a warning.  A simple query sent into an open
\* COPY IN aborts the COPY on the server.
\* Design: ROLLBACK first, then the reset statements.  Deviation reset_before_rollback: the reset runs
\* inside the still-open transaction - refused in a failed one, undone by the ROLLBACK in a healthy one.
CleanupEffect(s) ==
  LET rb == bTx[s] /\ "no_rollback_at_checkin" \notin Dev      \* ROLLBACK is sent
      rs == dirty[s] /\ "no_reset_at_checkin" \notin Dev        \* RESET / DEALLOCATE is sent
      sends == rb \/ rs
      \* a statement sent into an open COPY IN only aborts the COPY and is not executed itself
      swallow == tCopy[s] = "in" /\ sends
      resetWorks == ~("reset_before_rollback" \in Dev /\ tTx[s] # "I") /\ (tTx[s] = "I" \/ rb)
  IN
  /\ tTx' = [tTx EXCEPT ![s] = IF swallow THEN (IF rb /\ @ # "I" THEN "E" ELSE @) ELSE IF rb THEN "I" ELSE @]
  /\ bTx' = [bTx EXCEPT ![s] = FALSE]
  /\ tDirt' = [tDirt EXCEPT ![s] = IF rs /\ resetWorks /\ ~swallow THEN NONE ELSE @]
  /\ tPend' = [tPend EXCEPT ![s] = IF rb /\ ~swallow THEN NONE ELSE @]
  /\ dirty' = [dirty EXCEPT ![s] = FALSE]
  /\ tCopy' = [tCopy EXCEPT ![s] = IF sends THEN "no" ELSE @]
  /\ tUnread' = [tUnread EXCEPT ![s] = IF sends /\ tCopy[s] = "in" THEN FALSE ELSE @]
  \* Design: a connection that is in COPY when it comes back is not cleaned at all but closed (the belief stays, PutBack
  \* closes it).  Deviation cleanup_in_copy_reuses: the clean-up statements are sent, the error reply of the swallowed one
  \* ends COPY mode in the pooler's belief, and the connection passes the reuse test.
  /\ bCopy' = [bCopy EXCEPT ![s] = IF "cleanup_in_copy_reuses" \in Dev /\ sends THEN FALSE ELSE @]
  /\ UNCHANGED bData

\* bb8 put-back: ServerPool::has_broken decides reuse or close.
\* Design: an unclean connection is closed.  Deviation `putback_reuses_unclean`: only `bad`
\* is consulted (the pinned code).
Unclean(x, cp, d, dd) == x \/ cp \/ d \/ dd
PutBack(s, b, x, cp, d, dd) ==
  IF b \/ ("putback_reuses_unclean" \notin Dev /\ Unclean(x, cp, d, dd))
  THEN /\ alive' = [alive EXCEPT ![s] = FALSE] /\ idle' = [idle EXCEPT ![s] = FALSE]
  ELSE /\ idle' = [idle EXCEPT ![s] = TRUE] /\ UNCHANGED alive

\* End of transaction / idle-in-transaction timeout (exit=FALSE), Terminate or socket
\* drop inside the transaction loop (exit=TRUE): cleanup, leave the cancel map, put back.
EndWithCleanup(c, exit) ==
  /\ pc[c] \in {"cleanup", "intx"} /\ (pc[c] = "cleanup" => ~exit)
  /\ LET s == held[c] IN
       /\ CleanupEffect(s)
       /\ PutBack(s, bad[s], bTx'[s], bCopy'[s], bData[s], dirty'[s])
       /\ UNCHANGED <<bad, last>>
  /\ held' = [held EXCEPT ![c] = NONE]
  /\ cmap' = [cmap EXCEPT ![c] = IF "map_kept_after_release" \in Dev /\ ~exit THEN @ ELSE NONE]
  /\ pc' = [pc EXCEPT ![c] = IF exit THEN "gone" ELSE "idle"]
  /\ UNCHANGED <<vanished, pend, nmsg, viol>>

\* Early `?` return or panic inside the transaction loop (undecodable message, Bind of an
\* unknown statement, client write failure without mark_bad): no cleanup at all; Drop for
\* Client leaves the cancel map; the guard is dropped.
EarlyReturn(c) ==
  /\ pc[c] = "intx"
  /\ LET s == held[c] IN
       IF "early_return_leaks_guard" \in Dev THEN UNCHANGED <<alive, idle>>   \* connection never comes back
       ELSE PutBack(s, bad[s], bTx[s], bCopy[s], bData[s], dirty[s])
  /\ held' = [held EXCEPT ![c] = NONE] /\ cmap' = [cmap EXCEPT ![c] = NONE]
  /\ pc' = [pc EXCEPT ![c] = "gone"]
  /\ UNCHANGED <<vanished, pend, nmsg, bTx, bCopy, bData, bad, dirty, tvars, viol>>

\* The server connection fails under a statement: marked bad, the client is told and leaves.
ServerFail(c) ==
  /\ pc[c] = "fwd"
  /\ LET s == held[c] IN
       /\ alive' = [alive EXCEPT ![s] = FALSE] /\ idle' = [idle EXCEPT ![s] = FALSE]
       /\ bad' = [bad EXCEPT ![s] = TRUE]
  /\ held' = [held EXCEPT ![c] = NONE] /\ cmap' = [cmap EXCEPT ![c] = NONE]
  /\ pc' = [pc EXCEPT ![c] = "gone"]
  /\ UNCHANGED <<vanished, pend, nmsg, bTx, bCopy, bData, dirty, tvars, viol>>

\* The statement runs past statement_timeout: the client is told and leaves; the server still owes the
\* reply, so the connection must be discarded (mark_bad).  Deviation timeout_keeps_connection: it is not.
StatementTimeout(c) ==
  /\ pc[c] = "fwd" /\ pend[c] = "slow"
  /\ LET s == held[c]
         \* deviation timeout_marks_bad_after_write: mark_bad comes after the error is written to the client, and is
         \* skipped when that write fails because the client is gone
         keep == "timeout_keeps_connection" \in Dev \/ ("timeout_marks_bad_after_write" \in Dev /\ c \in vanished)
     IN /\ tUnread' = [tUnread EXCEPT ![s] = TRUE] /\ last' = [last EXCEPT ![s] = c]
        /\ bad' = [bad EXCEPT ![s] = ~keep]
        /\ PutBack(s, ~keep, bTx[s], bCopy[s], bData[s], dirty[s])
        /\ UNCHANGED <<bTx, bCopy, bData, dirty, tTx, tCopy, tDirt, tPend>>
  /\ held' = [held EXCEPT ![c] = NONE] /\ cmap' = [cmap EXCEPT ![c] = NONE]
  /\ pc' = [pc EXCEPT ![c] = "gone"]
  /\ UNCHANGED <<vanished, pend, nmsg, viol>>

\* Client leaves while idle (Terminate, socket drop, shutdown kick).
Leave(c) ==
  /\ pc[c] = "idle" /\ pc' = [pc EXCEPT ![c] = "gone"]
  /\ UNCHANGED <<vanished, held, pend, nmsg, bvars, tvars, cmap, viol>>

\* The client's socket dies (TCP reset) while its message is being served or while it waits for a connection.
\* The pooler finds out when it writes to the client.
Vanish(c) ==
  /\ pc[c] \in {"wait", "fwd"} /\ c \notin vanished
  /\ vanished' = vanished \cup {c}
  /\ UNCHANGED <<pc, held, pend, nmsg, bvars, tvars, cmap, viol>>
SendFirstGone(c, k) ==
  /\ pc[c] = "idle" /\ nmsg[c] < MaxMsgs /\ k \in FirstKinds \ {"copyin", "copyin2", "local"}
  /\ pc' = [pc EXCEPT ![c] = "wait"] /\ pend' = [pend EXCEPT ![c] = k]
  /\ nmsg' = [nmsg EXCEPT ![c] = @ + 1] /\ vanished' = vanished \cup {c}
  /\ UNCHANGED <<held, bvars, tvars, cmap, viol>>
NextMsgGone(c, k) ==
  /\ pc[c] = "intx" /\ nmsg[c] < MaxMsgs /\ k \in {"stmt", "fail", "set", "commit", "big"} /\ ~bCopy[held[c]]
  /\ pend' = [pend EXCEPT ![c] = k] /\ nmsg' = [nmsg EXCEPT ![c] = @ + 1]
  /\ pc' = [pc EXCEPT ![c] = "fwd"] /\ vanished' = vanished \cup {c}
  /\ UNCHANGED <<held, bvars, tvars, cmap, viol>>

\* The server answers a client that is gone: the write of the reply fails, the connection is marked bad
\* (send_and_receive_loop) and closed when the guard is dropped; Drop for Client leaves the cancel map.
ForwardVanished(c) ==
  /\ pc[c] = "fwd" /\ pend[c] # "slow" /\ c \in vanished
  /\ LET s == held[c] IN
       /\ Exec(c, s, pend[c], TRUE)
       /\ alive' = [alive EXCEPT ![s] = FALSE] /\ idle' = [idle EXCEPT ![s] = FALSE]
       /\ bad' = [bad EXCEPT ![s] = TRUE]
  /\ held' = [held EXCEPT ![c] = NONE] /\ cmap' = [cmap EXCEPT ![c] = NONE]
  /\ pc' = [pc EXCEPT ![c] = "gone"]
  /\ UNCHANGED <<pend, nmsg, vanished>>

\* The pool's reaper closes an idle connection that reached idle_timeout or server_lifetime (bb8 reaper).
Reap(s) ==
  /\ alive[s] /\ idle[s]
  /\ alive' = [alive EXCEPT ![s] = FALSE] /\ idle' = [idle EXCEPT ![s] = FALSE]
  /\ UNCHANGED <<cvars, bTx, bCopy, bData, bad, dirty, tvars, cmap, viol>>

\* The server restarts while nobody holds a connection: every connection is gone, new ones are refused for a while (startup
\* answered with a FATAL error), then the server is back.  Afterwards the pool opens connections again up to pool_size.
ServerRestart ==
  /\ \A c \in Clients : held[c] = NONE /\ pc[c] \in {"off", "idle", "gone"}
  /\ alive' = [s \in Conns |-> FALSE] /\ idle' = [s \in Conns |-> FALSE]
  /\ UNCHANGED <<cvars, bTx, bCopy, bData, bad, dirty, tvars, cmap, viol>>

\* A CancelRequest carrying c's key: looked up under the map lock; the request goes to the
\* mapped connection.  Monitor: it must be the connection c holds right now.
Cancel(c) ==
  /\ pc[c] # "off"
  /\ viol' = IF cmap[c] # NONE /\ held[c] # cmap[c]
             THEN viol \cup {<<"cancel_wrong_target", cmap[c], held[c]>>} ELSE viol
  /\ UNCHANGED <<cvars, bvars, tvars, cmap>>

\* A CancelRequest carrying c's key arrives while the server does not accept connections (its listener is down for a
\* moment: restart, full backlog).  Server::cancel's connect is refused and the request is dropped: a cancel request is
\* about what the client is running NOW.  (deviation cancel_retried_later: the pooler keeps the looked-up target and
\* tries again later.)
CancelDown(c) ==
  /\ pc[c] # "off"
  /\ late' = IF "cancel_retried_later" \in Dev /\ cmap[c] # NONE THEN late \cup {<<c, cmap[c]>>} ELSE late
  /\ UNCHANGED <<cvars, bvars, tvars, cmap, viol>>

\* (deviation only) a retried request gets through: it reaches the connection that was looked up when it was made.
\* Monitor: the requester must still hold it.
DeliverLate ==
  \E p \in late :
    /\ late' = late \ {p}
    /\ viol' = IF held[p[1]] # p[2] THEN viol \cup {<<"cancel_after_release", p[2], held[p[1]]>>} ELSE viol
    /\ UNCHANGED <<cvars, bvars, tvars, cmap>>

ClientNext ==
  \E c \in Clients :
     \/ Connect(c) \/ Leave(c) \/ Cancel(c)
     \/ (\E k \in Kinds : SendFirst(c, k) \/ NextMsg(c, k))
     \/ (\E s \in Conns : Checkout(c, s)) \/ CheckoutTimeout(c)
     \/ Forward(c) \/ ServerFail(c) \/ StatementTimeout(c)
     \/ EndWithCleanup(c, TRUE) \/ EndWithCleanup(c, FALSE) \/ EarlyReturn(c)
     \/ Vanish(c) \/ ForwardVanished(c)
     \/ (\E k \in Kinds : SendFirstGone(c, k) \/ NextMsgGone(c, k))

Next == \/ (ClientNext \/ (\E s \in Conns : Reap(s)) \/ ServerRestart) /\ late' = late
        \/ (\E c \in Clients : CancelDown(c)) \/ DeliverLate

Spec == Init /\ [][Next]_vars

-----------------------------------------------------------------------------
\* Properties.
TypeOK ==
  /\ pc \in [Clients -> {"off", "idle", "wait", "fwd", "intx", "cleanup", "gone"}]
  /\ held \in [Clients -> Conns \cup {NONE}]
  /\ tTx \in [Conns -> {"I", "T", "E"}]

\* C01/C04: a connection is held by at most one client and is not in the idle queue meanwhile.
ExclusiveHold ==
  /\ \A a, b \in Clients : held[a] # NONE /\ held[a] = held[b] => a = b
  /\ \A c \in Clients : held[c] # NONE => alive[held[c]] /\ ~idle[held[c]]

\* C01/C02: no statement ever ran on a connection another client left unfinished or dirty.
CleanHandoff == viol = {}

\* C02 stated on the idle queue: whatever waits to be handed out is a clean session.
IdleIsClean ==
  \A s \in Conns : alive[s] /\ idle[s] =>
      tTx[s] = "I" /\ tCopy[s] = "no" /\ ~tUnread[s] /\ tDirt[s] = NONE /\ tPend[s] = NONE

\* C04: never more server connections than pool_size.
Bounded == NAlive <= PoolSize

\* C04: nothing leaks - when no client is inside a transaction every connection is idle.
NoLeak ==
  (\A c \in Clients : pc[c] \in {"off", "idle", "gone"}) =>
      /\ \A s \in Conns : alive[s] => idle[s]
      /\ \A c \in Clients : held[c] = NONE

\* C04: in transaction mode the pooler does not sit on a connection for a client whose transaction is over
\* (a client that merely waits for its next message holds nothing unless it is inside a transaction or COPY).
HoldsOnlyInTx ==
  TxMode => \A c \in Clients : pc[c] = "intx" => (tTx[held[c]] # "I" \/ tCopy[held[c]] # "no")

\* C10: the cancel map names exactly the connection a client holds.
MapSound == \A c \in Clients : cmap[c] # NONE => held[c] = cmap[c]

\* C10: a client that is inside a transaction can be cancelled - its entry names the connection it holds.
MapComplete == \A c \in Clients : pc[c] = "intx" /\ held[c] # NONE => cmap[c] = held[c]

\* Belief never claims "idle and clean" while the session is inside a transaction.
BeliefSound ==
  \A s \in Conns : alive[s] /\ idle[s] => ~bTx[s]

Deviations == {"putback_reuses_unclean", "copydone_single_recv", "copydone_no_copy_check", "set_in_tx_not_marked",
               "reset_before_rollback", "timeout_keeps_connection", "failed_tx_counts_as_idle", "prepare_not_marked",
               "session_mode_releases", "no_rollback_at_checkin", "no_reset_at_checkin", "map_kept_after_release",
               "early_return_leaks_guard", "error_keeps_copy_mode", "timeout_marks_bad_after_write", "local_batch_keeps_server", "reset_clears_dirty", "cleanup_in_copy_reuses",
               "cancel_retried_later", "claim_unmaps_previous"}

Quiescent == \A c \in Clients : pc[c] \in {"off", "idle", "gone"}

Perms == Permutations(Clients) \cup Permutations(Conns)
=============================================================================
