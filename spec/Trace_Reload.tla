---------------------------- MODULE Trace_Reload ----------------------------
(***************************************************************************)
(* Replays a recorded reload scenario through the Reload design model and   *)
(* compares what the model requires with what was observed on the wire and  *)
(* at the mock backends (harness order; lock-step):                          *)
(*  - a transaction that starts after a completed reload runs on a server of *)
(*    the definition in effect (or is refused when the pool was removed);    *)
(*  - every statement of a transaction runs on the connection it started on; *)
(*  - an invalid file has no effect; an unchanged definition keeps its pool   *)
(*    object and its server connections; the control pool is never touched.   *)
(***************************************************************************)
EXTENDS Reload, Json, IOUtils, TLCExt
Rec == ndJsonDeserialize(IOEnv.TRACE)
VARIABLES l, sc, seen
tv == <<vars, l, sc, seen>>
E == Rec[l]
Report(kind, detail) ==
  IF kind \in seen THEN TRUE
  ELSE PrintT(<<"VIOL", ToJson([sc |-> sc, line |-> l, kind |-> kind, detail |-> detail])>>)
Flag(c, kind, detail) == IF c THEN Report(kind, detail) ELSE TRUE
K(pairs) == UNION {IF p[1] THEN {p[2]} ELSE {} : p \in pairs}

TInit == Init /\ l = 1 /\ sc = 0 /\ seen = {}

Reset == /\ E.ev = "reset"
         /\ file' = "A" /\ config' = "A" /\ pools' = [def |-> "A", obj |-> 0] /\ nextObj' = 1 /\ reloadPc' = "idle"
         /\ staged' = "A" /\ tx' = [c \in Clients |-> -1] /\ txdef' = [c \in Clients |-> "none"]
         /\ cobj' = [c \in Clients |-> 0] /\ nops' = 0 /\ viol' = {} /\ applied' = "A"
         /\ sc' = E.sc /\ seen' = {}

TWrite == /\ E.ev = "write" /\ file' = E.f
          /\ UNCHANGED <<config, pools, nextObj, reloadPc, staged, tx, txdef, cobj, nops, viol, applied, sc, seen>>

\* RELOAD completed (both model steps).  Observed: E.created (a new db1 pool object was built), E.db1_closed
\* (server connections of db1's old definition were closed), E.ctl_closed, E.opened (new server connections).
TReload ==
  /\ E.ev = "reload"
  /\ LET valid == Valid(file)
         newdef == IF valid THEN file ELSE pools.def
         changed == valid /\ file # pools.def
         unspec == file = "unreachable" \/ pools.def = "unreachable"     \* no expectation about pool objects around such a file
         v1 == ~valid /\ (E.created \/ E.ctl_created \/ E.config_stored)
         v2 == valid /\ ~changed /\ E.created /\ ~unspec
         v3 == E.ctl_closed \/ E.ctl_created
         v4 == changed /\ ~E.created /\ newdef # "absent" /\ ~unspec
     IN /\ Flag(v1, "invalid_reload_had_effects", [file |-> file, created |-> E.created, config_stored |-> E.config_stored])
        /\ Flag(v2, "unchanged_pool_recreated", [def |-> pools.def])
        /\ Flag(v3, "control_pool_touched", [closed |-> E.ctl_closed, created |-> E.ctl_created])
        /\ Flag(v4, "changed_pool_not_rebuilt", [from |-> pools.def, to |-> newdef])
        /\ seen' = seen \cup K({<<v1, "invalid_reload_had_effects">>, <<v2, "unchanged_pool_recreated">>,
                                <<v3, "control_pool_touched">>, <<v4, "changed_pool_not_rebuilt">>})
        /\ config' = newdef /\ applied' = newdef
        /\ pools' = IF changed THEN [def |-> newdef, obj |-> nextObj] ELSE pools
        /\ nextObj' = IF changed THEN nextObj + 1 ELSE nextObj
  /\ UNCHANGED <<file, reloadPc, staged, tx, txdef, cobj, nops, viol, sc>>

\* A: [b1 primary, b4 replica]   B: [b3 primary]   R: [b1 replica, b4 primary]; the pool routes to its primary
\* P: the servers of A, plus query parsing and a table_access plugin that guards table "guarded"
ServerOf(d) == IF d \in {"A", "P"} THEN "b1" ELSE IF d = "B" THEN "b3" ELSE IF d = "R" THEN "b4" ELSE "none"

TTxStart ==
  /\ E.ev = "txstart"
  /\ LET d == pools.def
         v1 == d = "absent" /\ E.landed # "none"
         v2 == d \notin {"absent", "unreachable"} /\ E.landed # ServerOf(d) /\ E.landed # "none"
         v3 == d \notin {"absent", "unreachable"} /\ E.landed = "none"
     IN /\ Flag(v1, "removed_pool_served", [landed |-> E.landed])
        /\ Flag(v2, "wrong_definition_used", [in_effect |-> d, expected |-> ServerOf(d), landed |-> E.landed])
        /\ Flag(v3, "transaction_refused", [in_effect |-> d, reply |-> E.reply])
        /\ seen' = seen \cup K({<<v1, "removed_pool_served">>, <<v2, "wrong_definition_used">>, <<v3, "transaction_refused">>})
        /\ tx' = [tx EXCEPT ![E.c] = IF E.landed = "none" THEN -1 ELSE pools.obj]
        /\ txdef' = [txdef EXCEPT ![E.c] = d]
  /\ UNCHANGED <<file, config, pools, nextObj, reloadPc, staged, cobj, nops, viol, applied, sc>>

\* a one-statement transaction reading table "guarded"
TProbe ==
  /\ E.ev = "probe"
  /\ LET d == pools.def
         guarded == d = "P"
         v1 == guarded /\ (~E.denied \/ E.landed # "none")
         v2 == ~guarded /\ d \notin {"absent", "unreachable"} /\ E.denied
         v3 == ~guarded /\ d \notin {"absent", "unreachable"} /\ ~E.denied /\ E.landed # ServerOf(d) /\ E.landed # "none"
         v4 == d = "absent" /\ E.landed # "none"
     IN /\ Flag(v1, "policy_of_new_definition_not_applied", [in_effect |-> d, denied |-> E.denied, landed |-> E.landed])
        /\ Flag(v2, "policy_of_old_definition_applied", [in_effect |-> d, reply |-> E.reply])
        /\ Flag(v3, "wrong_definition_used", [in_effect |-> d, expected |-> ServerOf(d), landed |-> E.landed])
        /\ Flag(v4, "removed_pool_served", [landed |-> E.landed])
        /\ seen' = seen \cup K({<<v1, "policy_of_new_definition_not_applied">>, <<v2, "policy_of_old_definition_applied">>,
                                <<v3, "wrong_definition_used">>, <<v4, "removed_pool_served">>})
  /\ UNCHANGED <<vars, sc>>

TTxStep ==
  /\ E.ev = "txstep"
  \* (a transaction that started while the definition in effect was unspecified - after a reload whose pools could not be
  \* built - is not judged)
  /\ LET v1 == tx[E.c] # -1 /\ ~E.same_conn /\ txdef[E.c] # "unreachable"
         v2 == tx[E.c] # -1 /\ ~E.ok /\ txdef[E.c] # "unreachable"
     IN /\ Flag(v1, "transaction_moved_by_reload", [client |-> E.c, landed |-> E.landed])
        /\ Flag(v2, "transaction_broken_by_reload", [client |-> E.c, reply |-> E.reply])
        /\ seen' = seen \cup K({<<v1, "transaction_moved_by_reload">>, <<v2, "transaction_broken_by_reload">>})
  /\ UNCHANGED <<vars, sc>>

TTxEnd ==
  /\ E.ev = "txend"
  /\ LET v == tx[E.c] # -1 /\ (~E.ok \/ ~E.same_conn) /\ txdef[E.c] # "unreachable" IN
       /\ Flag(v, "transaction_broken_by_reload", [client |-> E.c, reply |-> E.reply])
       /\ seen' = seen \cup K({<<v, "transaction_broken_by_reload">>})
  /\ tx' = [tx EXCEPT ![E.c] = -1]
  /\ UNCHANGED <<file, config, pools, nextObj, reloadPc, staged, txdef, cobj, nops, viol, applied, sc>>

\* PAUSE / RESUME are not in the recorded trace: a held transaction is recorded as starting when RESUME let it go
Step == /\ l <= Len(Rec) /\ l' = l + 1 /\ paused' = paused /\ parked' = parked
        /\ (Reset \/ TWrite \/ TReload \/ TTxStart \/ TTxStep \/ TTxEnd \/ TProbe)
TSpec == TInit /\ [][Step]_tv
Accepted == /\ PrintT(<<"MATCHED", ToString(TLCGet("stats").diameter - 1)>>)
            /\ TLCGet("stats").diameter - 1 = Len(Rec)
=============================================================================
