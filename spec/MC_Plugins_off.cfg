SPECIFICATION PSpec
CONSTANTS
  PluginsOn = FALSE
  Dev = {}
  MaxMsgs = 4
INVARIANTS NeverForwarded NothingBlockedWhenOff
