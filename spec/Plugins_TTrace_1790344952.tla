---- MODULE Plugins_TTrace_1790344952 ----
EXTENDS Sequences, TLCExt, Toolbox, Naturals, TLC, Plugins

_expression ==
    LET Plugins_TEExpression == INSTANCE Plugins_TEExpression
    IN Plugins_TEExpression!expression
----

_trace ==
    LET Plugins_TETrace == INSTANCE Plugins_TETrace
    IN Plugins_TETrace!trace
----

_inv ==
    ~(
        TLCGet("level") = Len(_TETrace)
        /\
        fwd = (<<"blocked">>)
        /\
        replies = (<<"rows">>)
        /\
        roleSel = ("primary")
        /\
        verdict = ("none")
        /\
        batch = (<<>>)
        /\
        inTx = (FALSE)
        /\
        n = (2)
    )
----

_init ==
    /\ fwd = _TETrace[1].fwd
    /\ replies = _TETrace[1].replies
    /\ verdict = _TETrace[1].verdict
    /\ batch = _TETrace[1].batch
    /\ roleSel = _TETrace[1].roleSel
    /\ n = _TETrace[1].n
    /\ inTx = _TETrace[1].inTx
----

_next ==
    /\ \E i,j \in DOMAIN _TETrace:
        /\ \/ /\ j = i + 1
              /\ i = TLCGet("level")
        /\ fwd  = _TETrace[i].fwd
        /\ fwd' = _TETrace[j].fwd
        /\ replies  = _TETrace[i].replies
        /\ replies' = _TETrace[j].replies
        /\ verdict  = _TETrace[i].verdict
        /\ verdict' = _TETrace[j].verdict
        /\ batch  = _TETrace[i].batch
        /\ batch' = _TETrace[j].batch
        /\ roleSel  = _TETrace[i].roleSel
        /\ roleSel' = _TETrace[j].roleSel
        /\ n  = _TETrace[i].n
        /\ n' = _TETrace[j].n
        /\ inTx  = _TETrace[i].inTx
        /\ inTx' = _TETrace[j].inTx

\* Uncomment the ASSUME below to write the states of the error trace
\* to the given file in Json format. Note that you can pass any tuple
\* to `JsonSerialize`. For example, a sub-sequence of _TETrace.
    \* ASSUME
    \*     LET J == INSTANCE Json
    \*         IN J!JsonSerialize("Plugins_TTrace_1790344952.json", _TETrace)

=============================================================================

 Note that you can extract this module `Plugins_TEExpression`
  to a dedicated file to reuse `expression` (the module in the 
  dedicated `Plugins_TEExpression.tla` file takes precedence 
  over the module `Plugins_TEExpression` below).

---- MODULE Plugins_TEExpression ----
EXTENDS Sequences, TLCExt, Toolbox, Naturals, TLC, Plugins

expression == 
    [
        \* To hide variables of the `Plugins` spec from the error trace,
        \* remove the variables below.  The trace will be written in the order
        \* of the fields of this record.
        fwd |-> fwd
        ,replies |-> replies
        ,verdict |-> verdict
        ,batch |-> batch
        ,roleSel |-> roleSel
        ,n |-> n
        ,inTx |-> inTx
        
        \* Put additional constant-, state-, and action-level expressions here:
        \* ,_stateNumber |-> _TEPosition
        \* ,_fwdUnchanged |-> fwd = fwd'
        
        \* Format the `fwd` variable as Json value.
        \* ,_fwdJson |->
        \*     LET J == INSTANCE Json
        \*     IN J!ToJson(fwd)
        
        \* Lastly, you may build expressions over arbitrary sets of states by
        \* leveraging the _TETrace operator.  For example, this is how to
        \* count the number of times a spec variable changed up to the current
        \* state in the trace.
        \* ,_fwdModCount |->
        \*     LET F[s \in DOMAIN _TETrace] ==
        \*         IF s = 1 THEN 0
        \*         ELSE IF _TETrace[s].fwd # _TETrace[s-1].fwd
        \*             THEN 1 + F[s-1] ELSE F[s-1]
        \*     IN F[_TEPosition - 1]
    ]

=============================================================================



Parsing and semantic processing can take forever if the trace below is long.
 In this case, it is advised to uncomment the module below to deserialize the
 trace from a generated binary file.

\*
\*---- MODULE Plugins_TETrace ----
\*EXTENDS IOUtils, TLC, Plugins
\*
\*trace == IODeserialize("Plugins_TTrace_1790344952.bin", TRUE)
\*
\*=============================================================================
\*

---- MODULE Plugins_TETrace ----
EXTENDS TLC, Plugins

trace == 
    <<
    ([fwd |-> <<>>,replies |-> <<>>,roleSel |-> "default",verdict |-> "none",batch |-> <<>>,inTx |-> FALSE,n |-> 0]),
    ([fwd |-> <<>>,replies |-> <<>>,roleSel |-> "primary",verdict |-> "none",batch |-> <<>>,inTx |-> FALSE,n |-> 1]),
    ([fwd |-> <<"blocked">>,replies |-> <<"rows">>,roleSel |-> "primary",verdict |-> "none",batch |-> <<>>,inTx |-> FALSE,n |-> 2])
    >>
----


=============================================================================

---- CONFIG Plugins_TTrace_1790344952 ----
CONSTANTS
    PluginsOn = TRUE
    Dev = { "verdict_overwrite" , "plugins_follow_parser_override" }
    MaxMsgs = 4

INVARIANT
    _inv

CHECK_DEADLOCK
    \* CHECK_DEADLOCK off because of PROPERTY or INVARIANT above.
    FALSE

INIT
    _init

NEXT
    _next

CONSTANT
    _TETrace <- _trace

ALIAS
    _expression
=============================================================================
\* Generated on Fri Sep 25 14:02:33 UTC 2026