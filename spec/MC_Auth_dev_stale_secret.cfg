SPECIFICATION Spec
CONSTANT Dev = {"stale_secret"}
INVARIANTS NoOkWithoutCredentials OnlyValidAdmitted AdmittedOnlyByRule
