----------------------------- MODULE ConfigSpace -----------------------------
(***************************************************************************)
(* A bounded grammar of pool configurations (src/config.rs Config / Pool /   *)
(* Shard / User validate, src/pool.rs from_config) and the predicate C15     *)
(* states: MustReject(c) - the configuration cannot be served and has to be  *)
(* refused - and, for accepted ones, where statements must land.  TLC        *)
(* enumerates the configurations that differ from the base in at most two    *)
(* dimensions; the harness renders each as TOML and starts the real binary.  *)
(***************************************************************************)
EXTENDS Integers, Sequences, FiniteSets, TLC, Json

\* 0_00 / 0_00_2: two section names that are the same number
ShardSets == {"0", "0_1", "0_1_2", "0_to_11", "1", "1_2", "0_2", "0_x", "0_neg1", "0_01", "0_00", "0_00_2"}
Layouts == {"P", "PR", "PRR", "R", "PP", "Pdup"}          \* servers of every shard: roles; Pdup = same primary twice
DefShards == {"shard_0", "shard_last", "shard_n", "random", "random_healthy", "junk"}
DefRoles == {"any", "primary", "replica", "junk"}
\* none = no password and no auth_query (md5 auth impossible); none_other_pool_authquery = the same, while ANOTHER pool has a
\* complete auth_query; authquery_incomplete = auth_query_user and auth_query_password without the query itself
Creds == {"password", "trust", "none", "authquery", "none_other_pool_authquery", "authquery_incomplete"}
Regexes == {"none", "valid", "invalid"}
Plugins == {"none", "with_parser", "without_parser"}
PoolSizes == {1, 3}

Base == [shards |-> "0_1", layout |-> "PR", defshard |-> "shard_0", defrole |-> "any", creds |-> "password",
         regex |-> "none", plugins |-> "none", psize |-> 3]

All == [shards : ShardSets, layout : Layouts, defshard : DefShards, defrole : DefRoles, creds : Creds,
        regex : Regexes, plugins : Plugins, psize : PoolSizes]
B(x) == IF x THEN 1 ELSE 0
Dist(c) == B(c.shards # Base.shards) + B(c.layout # Base.layout) + B(c.defshard # Base.defshard) + B(c.defrole # Base.defrole)
           + B(c.creds # Base.creds) + B(c.regex # Base.regex) + B(c.plugins # Base.plugins) + B(c.psize # Base.psize)
Configs == {c \in All : Dist(c) <= 2}

\* as numbers ("01" is the number 1)
Contiguous(s) == s \in {"0", "0_1", "0_1_2", "0_01", "0_to_11"}
NShards(s) == CASE s \in {"0", "1"} -> 1 [] s \in {"0_1_2", "0_00_2"} -> 3 [] s = "0_to_11" -> 12 [] OTHER -> 2

\* what C15 lists as not servable
Reasons(c) ==
  (IF ~Contiguous(c.shards) THEN {"bad_shard_numbering"} ELSE {})
  \cup (IF c.layout = "PP" THEN {"more_than_one_primary"} ELSE {})
  \cup (IF c.layout = "Pdup" THEN {"duplicate_servers"} ELSE {})
  \cup (IF c.defshard \in {"shard_n", "junk"} THEN {"invalid_default_shard"} ELSE {})
  \cup (IF c.defshard = "shard_last" /\ ~Contiguous(c.shards) THEN {} ELSE {})
  \cup (IF c.defrole = "junk" THEN {"invalid_default_role"} ELSE {})
  \cup (IF c.creds \in {"none", "none_other_pool_authquery", "authquery_incomplete"} THEN {"missing_credentials"} ELSE {})
  \cup (IF c.regex = "invalid" THEN {"invalid_regex"} ELSE {})
  \cup (IF c.plugins = "without_parser" THEN {"plugins_without_parser"} ELSE {})
MustReject(c) == Reasons(c) # {}

VARIABLE done
Init == done = FALSE
Next == ~done /\ done' = TRUE /\
        \A c \in Configs : PrintT(<<"CONFIG", ToJson([c |-> c, must_reject |-> MustReject(c), reasons |-> Reasons(c),
                                                       nshards |-> NShards(c.shards)])>>)
Spec == Init /\ [][Next]_done
=============================================================================
