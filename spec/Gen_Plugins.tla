---------------------------- MODULE Gen_Plugins ----------------------------
EXTENDS Plugins, Json
CONSTANT Depth
VARIABLE hist
gv == <<pvars, hist>>
H(r) == hist' = Append(hist, r)
GNext ==
  /\ Len(hist) < Depth
  /\ \/ \E w \in {"primary", "replica", "any", "auto", "default"} : ~inTx /\ batch = <<>> /\ SetRole(w) /\ H([op |-> "set_role", arg |-> w, kinds |-> <<>>])
     \/ \E s \in Shapes : Query(s) /\ H([op |-> "query", arg |-> "", kinds |-> SeqOf(s)])
     \* a Parse..Sync batch; delivery "flush": the client sends Flush after the last message and Sync afterwards
     \/ \E s \in Shapes, d \in {"", "flush"} : batch = <<>> /\ n < MaxMsgs /\ n' = n + 1
           /\ H([op |-> "batch", arg |-> d, kinds |-> SeqOf(s)])
           /\ UNCHANGED <<roleSel, inTx, verdict, batch, fwd, replies, named, pendName>>
     \* statement caching on: one named Parse + Sync, and later Bind(name) Execute Sync
     \/ \E k \in Kinds : batch = <<>> /\ n < MaxMsgs /\ n' = n + 1 /\ named' = k
           /\ H([op |-> "batch", arg |-> "named", kinds |-> <<k>>])
           /\ UNCHANGED <<roleSel, inTx, verdict, batch, fwd, replies, pendName>>
     \/ named # "none" /\ batch = <<>> /\ n < MaxMsgs /\ n' = n + 1
           /\ H([op |-> "bind", arg |-> "", kinds |-> <<named>>])
           /\ UNCHANGED <<roleSel, inTx, verdict, batch, fwd, replies, named, pendName>>
     \/ Begin /\ H([op |-> "begin", arg |-> "", kinds |-> <<>>])
     \/ Commit /\ H([op |-> "commit", arg |-> "", kinds |-> <<>>])
GSpec == PInit /\ hist = <<>> /\ [][GNext]_gv
Emit == (Len(hist) = Depth) => PrintT(<<"SCENARIO", ToJson([steps |-> hist])>>)
=============================================================================
