---------------------------- MODULE Gen_Shutdown ----------------------------
(* Controllable histories of Shutdown: who connects, begins / ends a transaction, leaves, and when
   SIGINT / SIGTERM arrive.  Internal steps (startup, drain processing, clients observing the shutdown
   broadcast) are the pooler's own. *)
EXTENDS Shutdown, Json
CONSTANT Depth
VARIABLE hist
gv == <<vars, hist>>
H(op, c) == hist' = Append(hist, [op |-> op, c |-> c])
Quiet == drain = <<>> /\ \A c \in All : ph[c] # "starting" /\ ~(bcast[c] /\ ph[c] = "idle")
GNext ==
  \/ /\ Len(hist) < Depth /\ Quiet /\ running
     /\ \/ \E c \in All : Accept(c) /\ H("connect", c)
        \/ \E c \in All : BeginTx(c) /\ H("begin", c)
        \/ \E c \in All : EndTx(c) /\ H("end", c)
        \/ \E c \in All : Leave(c) /\ H("leave", c)
        \/ (Len(SelectSeq(hist, LAMBDA h : h.op = "cancel")) < 2 /\ CancelConn /\ H("cancel", ""))
        \/ Sigint /\ H("sigint", "")
        \/ Sigterm /\ H("sigterm", "")
  \/ /\ (\/ \E c \in All : Startup(c) \/ Observe(c)
         \/ DrainArm)
     /\ UNCHANGED hist
GSpec == Init /\ hist = <<>> /\ [][GNext]_gv
Emit == (Len(hist) = Depth \/ ~running) => PrintT(<<"SCENARIO", ToJson(hist)>>)
=============================================================================
