SPECIFICATION Spec
CONSTANTS
  Clients = {c1, c2}
  Defs = {"A", "B"}
  MaxOps = 7
  Dev = {"parked_tx_uses_old_pool"}
INVARIANTS ConfigIsValid PoolsFollowConfig NoViolation InvalidChangesNothing
