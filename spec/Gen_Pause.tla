----------------------------- MODULE Gen_Pause -----------------------------
(* Controllable histories of Pause: client arrivals and admin PAUSE / RESUME / RELOAD in every order. *)
EXTENDS Pause, Json, Sequences
CONSTANT Depth
VARIABLE hist
gv == <<vars, hist>>
H(op, c) == hist' = Append(hist, [op |-> op, c |-> c])
GNext ==
  \/ /\ Len(hist) < Depth
     /\ \/ \E c \in Clients : Arrive(c) /\ H("arrive", c)
        \/ Pause /\ H("pause", "")
        \/ ResumeA /\ H("resume", "")
        \/ Reload /\ H("reload", "")
  \/ /\ (\/ \E c \in Clients : CreateNotified(c) \/ ReadFlag(c) \/ Wake(c) \/ Checkout(c)
         \/ ResumeB)
     /\ UNCHANGED hist
GSpec == Init /\ hist = <<>> /\ [][GNext]_gv
Emit == (Len(hist) = Depth) => PrintT(<<"SCENARIO", ToJson(hist)>>)
=============================================================================
