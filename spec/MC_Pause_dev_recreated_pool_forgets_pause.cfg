SPECIFICATION Spec
CONSTANTS
  Clients = {c1, c2}
  MaxOps = 5
  Dev = {"recreated_pool_forgets_pause"}
INVARIANT HeldWhilePaused
PROPERTY AllProceed
