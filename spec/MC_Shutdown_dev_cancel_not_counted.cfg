SPECIFICATION Spec
CONSTANTS
  Clients = {c1, c2}
  Admins = {a1}
  AllowBacklog = FALSE
  Dev = {"cancel_not_counted"}
INVARIANTS NoLoginAfterSigint Graceful TxNotCut
PROPERTY ExitsWhenDrained
