----------------------------- MODULE Gen_Reload -----------------------------
EXTENDS Reload, Json
CONSTANT Depth
VARIABLE hist
gv == <<vars, hist>>
H(op, c, f) == hist' = Append(hist, [op |-> op, c |-> c, f |-> f])
Done == Len(hist) = Depth /\ reloadPc = "idle"
GNext == ~Done /\ (
  \/ /\ Len(hist) < Depth /\ reloadPc = "idle"
     /\ \/ \E f \in Files : WriteFile(f) /\ H("write", "", f)
        \/ ReloadParse /\ H("reload", "", "")
        \/ \E c \in Clients : TxStart(c) /\ H("txstart", c, "")
        \/ \E c \in Clients : TxStep(c) /\ H("txstep", c, "")
        \/ \E c \in Clients : TxEnd(c) /\ H("txend", c, "")
        \/ Pause /\ H("pause", "", "")
        \/ Resume /\ H("resume", "", "")
        \/ \E c \in Clients : Park(c) /\ H("park", c, "")
        \/ \E c \in Clients : Probe(c) /\ H("probe", c, "")
  \/ ReloadApply /\ UNCHANGED hist)
GSpec == Init /\ hist = <<>> /\ [][GNext]_gv
Emit == Done => PrintT(<<"SCENARIO", ToJson(hist)>>)
=============================================================================
