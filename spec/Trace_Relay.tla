---------------------------- MODULE Trace_Relay ----------------------------
(* Each record is one request relayed by the real pgcat: the reply stream the mock backend  *)
(* produced (kinds and byte sizes), the byte length of every Server::recv return (hook),     *)
(* and the harness' byte comparison of what the backend wrote with what the client read.      *)
EXTENDS Relay, Json, IOUtils, TLCExt
Rec == ndJsonDeserialize(IOEnv.TRACE)
VARIABLE l
E == Rec[l]
Msgs == [i \in 1..Len(E.msgs) |-> <<E.msgs[i][1], E.msgs[i][2]>>]
Report(kind, detail) == PrintT(<<"VIOL", ToJson([sc |-> E.sc, line |-> l, kind |-> kind, detail |-> detail])>>)
Flag(c, kind, detail) == IF c THEN Report(kind, detail) ELSE TRUE
Step ==
  /\ l <= Len(Rec) /\ l' = l + 1 /\ UNCHANGED rlvars
  /\ LET r == RelayAll(Msgs)
         ok == ~r.blocked /\ r.out = Msgs /\ r.rest = <<>> /\ ~r.da
     IN /\ Flag(~ok, "model_incomplete", [kinds |-> [i \in 1..Len(Msgs) |-> Msgs[i][1]]])
        /\ Flag(~E.client_ok, "reply_not_identical", [kinds |-> [i \in 1..Len(Msgs) |-> Msgs[i][1]], why |-> E.why,
                                                       proto |-> E.proto, tls |-> E.tls])
        /\ Flag(~E.req_ok, "request_not_identical", [proto |-> E.proto, why |-> E.why])
        /\ Flag(~E.next_ok, "next_request_disturbed", [kinds |-> [i \in 1..Len(Msgs) |-> Msgs[i][1]], why |-> E.why])
        /\ Flag(ok /\ E.client_ok /\ E.recvs # r.lens, "recv_drift", [model |-> r.lens, impl |-> E.recvs])
TInit == RInit /\ l = 1
TSpec == TInit /\ [][Step]_<<rlvars, l>>
Accepted == /\ PrintT(<<"MATCHED", ToString(TLCGet("stats").diameter - 1)>>)
            /\ TLCGet("stats").diameter - 1 = Len(Rec)
=============================================================================
