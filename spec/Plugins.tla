------------------------------ MODULE Plugins ------------------------------
(***************************************************************************)
(* Plugin verdicts in Client::handle (src/client.rs 948-1057, 1232-1371)    *)
(* and QueryRouter::execute_plugins (src/query_router.rs).                   *)
(* A client sends simple queries (a list of statements) or extended-protocol *)
(* batches (Parse.. then Sync).  Statement kinds: "neutral", "blocked"       *)
(* (mentions a table listed for table_access), "intercept" (matches an       *)
(* intercept rule).  The server log `fwd` records what was forwarded.        *)
(***************************************************************************)
EXTENDS Integers, Sequences, FiniteSets, TLC

CONSTANTS PluginsOn,   \* plugins configured and enabled for the pool (query parser on)
          Dev,         \* as-built deviations
          MaxMsgs

Kinds == {"neutral", "blocked", "intercept"}
Shapes == UNION {[1..n -> Kinds] : n \in 1..2}

VARIABLES roleSel,   \* last SET SERVER ROLE (parser override), as in Router
          inTx,      \* server connection held inside a transaction
          verdict,   \* pending plugin verdict of the open extended batch: "none"|"allow"|"deny"|"intercept"
          batch,     \* buffered Parse kinds of the open batch
          fwd,       \* sequence of statement kinds that reached a server
          replies,   \* sequence of reply kinds the client received: "rows"|"denied"|"intercepted"
          n,
          named,     \* statement caching on: kind of the statement the client's name "s" stands for in the pooler ("none")
          pendName   \* kind a Parse of the open batch wants to register under that name ("none")

pvars == <<roleSel, inTx, verdict, batch, fwd, replies, n, named, pendName>>

PInit == /\ roleSel = "default" /\ inTx = FALSE /\ verdict = "none" /\ batch = <<>> /\ fwd = <<>> /\ replies = <<>> /\ n = 0
         /\ named = "none" /\ pendName = "none"

\* the session's parser override (SET SERVER ROLE TO 'primary'|'replica'|'any' switches parsing off)
ParserEffective == roleSel \notin {"primary", "replica", "any"}
\* Design: plugins are a pool policy and run whenever they are configured.
\* Deviation: they run only while the session's parser is effective.
PluginsRun == PluginsOn /\ (ParserEffective \/ "plugins_follow_parser_override" \notin Dev)

Has(shape, k) == \E i \in DOMAIN shape : shape[i] = k
SeqOf(shape) == [i \in 1..Len(shape) |-> shape[i]]

SetRole(w) == /\ w \in {"primary", "replica", "any", "auto", "default"} /\ roleSel' = w /\ n' = n + 1
              /\ UNCHANGED <<inTx, verdict, batch, fwd, replies, named, pendName>>

\* Simple query: one verdict for the whole message.
Query(shape) ==
  /\ n < MaxMsgs /\ n' = n + 1 /\ batch = <<>>
  /\ IF PluginsRun /\ Has(shape, "blocked")
     THEN replies' = Append(replies, "denied") /\ UNCHANGED fwd
     ELSE IF PluginsRun /\ Has(shape, "intercept")
     THEN replies' = Append(replies, "intercepted") /\ UNCHANGED fwd
     ELSE replies' = Append(replies, "rows") /\ fwd' = fwd \o SeqOf(shape)
  /\ UNCHANGED <<roleSel, inTx, verdict, batch, named, pendName>>

\* Parse: verdict computed at Parse time and kept for the batch.
ParseCore(k) ==
  /\ n < MaxMsgs /\ Len(batch) < 2 /\ k \in Kinds
  /\ batch' = Append(batch, k)
  /\ LET v == IF ~PluginsRun THEN "allow"
              ELSE IF k = "blocked" THEN "deny" ELSE IF k = "intercept" THEN "intercept" ELSE "allow"
     IN verdict' = IF "verdict_overwrite" \in Dev THEN (IF PluginsRun THEN v ELSE verdict)
                   ELSE IF verdict = "deny" THEN "deny"                 \* a Deny stays
                   ELSE IF v = "allow" /\ verdict # "none" THEN verdict
                   ELSE v

Parse(k) == ParseCore(k) /\ UNCHANGED <<roleSel, inTx, fwd, replies, n, named, pendName>>

\* The same Parse, giving the statement the name "s" (statement caching on): the name is registered at once in the
\* client's map, for Binds later in the batch.
ParseNamed(k) == /\ pendName = "none" /\ ParseCore(k) /\ pendName' = k
                 /\ UNCHANGED <<roleSel, inTx, fwd, replies, n, named>>

Sync ==
  /\ batch # <<>> /\ n' = n + 1
  /\ IF verdict = "deny" THEN replies' = Append(replies, "denied") /\ UNCHANGED fwd
     ELSE IF verdict = "intercept" THEN replies' = Append(replies, "intercepted") /\ UNCHANGED fwd
     ELSE replies' = Append(replies, "rows") /\ fwd' = fwd \o batch
  /\ batch' = <<>> /\ verdict' = "none"
  \* a batch that was refused or answered by a plugin never happened: the name it wanted to register is forgotten
  \* (deviation refused_parse_stays_registered: it is kept)
  /\ named' = IF pendName = "none" THEN named
              ELSE IF verdict \in {"deny", "intercept"} /\ "refused_parse_stays_registered" \notin Dev THEN named
              ELSE pendName
  /\ pendName' = "none"
  /\ UNCHANGED <<roleSel, inTx>>

\* A later batch Bind("s") Execute Sync: no Parse, hence no plugin verdict; the pooler makes sure the statement the name
\* stands for exists on the server and runs it.
BindNamed ==
  /\ batch = <<>> /\ named # "none" /\ n < MaxMsgs /\ n' = n + 1
  /\ fwd' = Append(fwd, named) /\ replies' = Append(replies, "rows")
  /\ UNCHANGED <<roleSel, inTx, verdict, batch, named, pendName>>

Begin == /\ ~inTx /\ batch = <<>> /\ n < MaxMsgs /\ inTx' = TRUE /\ n' = n + 1 /\ UNCHANGED <<roleSel, verdict, batch, fwd, replies, named, pendName>>
Commit == /\ inTx /\ batch = <<>> /\ inTx' = FALSE /\ n' = n + 1 /\ UNCHANGED <<roleSel, verdict, batch, fwd, replies, named, pendName>>

PNext == \/ \E w \in {"primary", "auto", "default"} : ~inTx /\ batch = <<>> /\ n < MaxMsgs /\ SetRole(w)
         \/ \E s \in Shapes : Query(s)
         \/ \E k \in Kinds : Parse(k) \/ ParseNamed(k)
         \/ Sync \/ Begin \/ Commit \/ BindNamed

PSpec == PInit /\ [][PNext]_pvars

\* What C19 requires the client to get for one message made of statement kinds ks.
RequiredReply(ks, on) ==
  IF on /\ (\E i \in DOMAIN ks : ks[i] = "blocked") /\ (\E i \in DOMAIN ks : ks[i] = "intercept") THEN "unspecified"
  ELSE IF on /\ (\E i \in DOMAIN ks : ks[i] = "blocked") THEN "denied"
  ELSE IF on /\ Len(ks) = 1 /\ ks[1] = "intercept" THEN "intercepted"
  ELSE IF on /\ (\E i \in DOMAIN ks : ks[i] = "intercept") THEN "unspecified"
  ELSE "rows"

\* C19: with plugins on, no blocked statement ever reaches a server, and an intercepted one is not forwarded.
NeverForwarded == PluginsOn => \A i \in DOMAIN fwd : fwd[i] \notin {"blocked", "intercept"}
\* with plugins off nothing is blocked or intercepted
NothingBlockedWhenOff == ~PluginsOn => \A i \in DOMAIN replies : replies[i] = "rows"
=============================================================================
