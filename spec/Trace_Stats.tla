----------------------------- MODULE Trace_Stats -----------------------------
(* Ledger events recorded by the harness (what clients did and what the mock backends executed for them) drive the *)
(* ledger variables of Stats.tla; every `sample` record carries what SHOW CLIENTS / POOLS / SERVERS / LISTS / STATS  *)
(* reported at that quiescent point and is compared with the ledger.                                                 *)
EXTENDS Integers, Sequences, FiniteSets, TLC, Json, IOUtils, TLCExt
Rec == ndJsonDeserialize(IOEnv.TRACE)
Cl == {"A", "B", "C", "D", "Z0", "Z1"}
VARIABLES l, sc, seen, conn, state, q, x, srvLive, totX, totQ, lastTotals
tv == <<l, sc, seen, conn, state, q, x, srvLive, totX, totQ, lastTotals>>
E == Rec[l]
Report(kind, detail) ==
  IF kind \in seen THEN TRUE
  ELSE PrintT(<<"VIOL", ToJson([sc |-> sc, line |-> l, kind |-> kind, detail |-> detail])>>)
Flag(c, kind, detail) == IF c THEN Report(kind, detail) ELSE TRUE
K(pairs) == UNION {IF p[1] THEN {p[2]} ELSE {} : p \in pairs}
Z == [c \in Cl |-> 0]
NoTot == [xact |-> 0, query |-> 0, sent |-> 0, received |-> 0, errors |-> 0]
TInit == /\ l = 1 /\ sc = 0 /\ seen = {} /\ conn = {} /\ state = [c \in Cl |-> "none"] /\ q = Z /\ x = Z
         /\ srvLive = 0 /\ totX = 0 /\ totQ = 0 /\ lastTotals = NoTot
Reset == /\ E.ev = "reset" /\ sc' = E.sc /\ seen' = {} /\ conn' = {} /\ state' = [c \in Cl |-> "none"] /\ q' = Z /\ x' = Z
         /\ srvLive' = 0 /\ totX' = 0 /\ totQ' = 0 /\ lastTotals' = NoTot
Connect == /\ E.ev = "connect" /\ conn' = conn \cup {E.c} /\ state' = [state EXCEPT ![E.c] = "idle"]
           /\ q' = [q EXCEPT ![E.c] = 0] /\ x' = [x EXCEPT ![E.c] = 0]
           /\ UNCHANGED <<sc, seen, srvLive, totX, totQ, lastTotals>>
\* one request answered by a server; E.ends = the transaction was over afterwards
Request == /\ E.ev = "request"
           /\ q' = [q EXCEPT ![E.c] = @ + 1] /\ totQ' = totQ + 1
           /\ x' = IF E.ends THEN [x EXCEPT ![E.c] = @ + 1] ELSE x
           /\ totX' = IF E.ends THEN totX + 1 ELSE totX
           /\ state' = [state EXCEPT ![E.c] = IF E.ends THEN "idle" ELSE "active"]
           /\ UNCHANGED <<sc, seen, conn, srvLive, lastTotals>>
\* a request the pooler refused before any server was involved: the client is idle, nothing is counted
Refused == /\ E.ev = "refused" /\ state' = [state EXCEPT ![E.c] = "idle"]
           /\ UNCHANGED <<sc, seen, conn, q, x, srvLive, totX, totQ, lastTotals>>
Leave == /\ E.ev = "leave" /\ conn' = conn \ {E.c} /\ state' = [state EXCEPT ![E.c] = "none"]
         /\ UNCHANGED <<sc, seen, q, x, srvLive, totX, totQ, lastTotals>>
Servers == /\ E.ev = "servers" /\ srvLive' = E.live
           /\ UNCHANGED <<sc, seen, conn, state, q, x, totX, totQ, lastTotals>>

Sample ==
  /\ E.ev = "sample"
  /\ LET rows == E.clients           \* [name -> [state, xact, query]] for the pool under test, by application_name
         names == DOMAIN rows
         ghost == names \ conn
         missing == conn \ names
         wrongState == {c \in conn \cap names : rows[c].state # state[c]}
         wrongQ == {c \in conn \cap names : rows[c].query # q[c]}
         wrongX == {c \in conn \cap names : rows[c].xact # x[c]}
         p == E.pools
         v1 == ghost # {} \/ E.duplicate_rows
         v2 == missing # {}
         v3 == wrongState # {}
         v4 == wrongQ # {}
         v5 == wrongX # {}
         v6 == p.cl_idle + p.cl_active + p.cl_waiting # Cardinality(conn)
         v7 == conn = {} /\ (p.sv_active # 0 \/ p.cl_idle + p.cl_active + p.cl_waiting # 0)
         v8 == E.server_rows # srvLive
         v9 == E.totals.xact < lastTotals.xact \/ E.totals.query < lastTotals.query \/ E.totals.sent < lastTotals.sent
               \/ E.totals.received < lastTotals.received \/ E.totals.errors < lastTotals.errors
         v10 == E.totals.xact # totX \/ E.totals.query # totQ
         v11 == p.sv_active # Cardinality({c \in conn : state[c] = "active"})
         \* rows of SHOW CLIENTS that belong neither to a pool client nor to the admin connection taking the sample
         v12 == E.stray_rows > 0
         \* SHOW LISTS: free + used clients = the pool's clients + the admin connection
         v13 == E.lists_clients # Cardinality(conn) + 1
     IN /\ Flag(v1, "client_row_without_client", [ghost |-> ghost, duplicate |-> E.duplicate_rows])
        /\ Flag(v2, "client_without_row", [missing |-> missing])
        /\ Flag(v3, "client_state_wrong", [clients |-> wrongState, shown |-> [c \in wrongState |-> rows[c].state],
                                           true |-> [c \in wrongState |-> state[c]]])
        /\ Flag(v4, "query_count_wrong", [clients |-> wrongQ, shown |-> [c \in wrongQ |-> rows[c].query], true |-> [c \in wrongQ |-> q[c]]])
        /\ Flag(v5, "transaction_count_wrong", [clients |-> wrongX, shown |-> [c \in wrongX |-> rows[c].xact], true |-> [c \in wrongX |-> x[c]],
                                                kinds |-> E.kinds])
        /\ Flag(v6, "pool_client_states_do_not_add_up", [pools |-> p, connected |-> Cardinality(conn)])
        /\ Flag(v7, "not_zero_after_everyone_left", [pools |-> p])
        /\ Flag(v8, "server_rows_wrong", [shown |-> E.server_rows, live |-> srvLive])
        /\ Flag(v9, "total_decreased", [now |-> E.totals, before |-> lastTotals])
        /\ Flag(v10, "totals_wrong", [shown |-> E.totals, xact |-> totX, query |-> totQ, kinds |-> E.kinds])
        /\ Flag(v11, "active_servers_wrong", [pools |-> p, active_clients |-> Cardinality({c \in conn : state[c] = "active"})])
        /\ Flag(v12, "client_row_without_client", [stray_rows |-> E.stray_rows, kinds |-> E.kinds])
        /\ Flag(v13 /\ ~v12 /\ ~v1 /\ ~v2, "lists_do_not_match_clients", [lists |-> E.lists_clients, connected |-> Cardinality(conn)])
        /\ seen' = seen \cup K({<<v12, "client_row_without_client">>, <<v13, "lists_do_not_match_clients">>, <<v1, "client_row_without_client">>, <<v2, "client_without_row">>, <<v3, "client_state_wrong">>,
                                <<v4, "query_count_wrong">>, <<v5, "transaction_count_wrong">>,
                                <<v6, "pool_client_states_do_not_add_up">>, <<v7, "not_zero_after_everyone_left">>,
                                <<v8, "server_rows_wrong">>, <<v9, "total_decreased">>, <<v10, "totals_wrong">>,
                                <<v11, "active_servers_wrong">>})
  /\ lastTotals' = E.totals
  /\ UNCHANGED <<sc, conn, state, q, x, srvLive, totX, totQ>>

Step == /\ l <= Len(Rec) /\ l' = l + 1 /\ (Reset \/ Connect \/ Request \/ Refused \/ Leave \/ Servers \/ Sample)
TSpec == TInit /\ [][Step]_tv
Accepted == /\ PrintT(<<"MATCHED", ToString(TLCGet("stats").diameter - 1)>>)
            /\ TLCGet("stats").diameter - 1 = Len(Rec)
=============================================================================
