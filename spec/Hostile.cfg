SPECIFICATION HSpec
INVARIANTS OnlyTheSenderIsHurt EmitCases
