SPECIFICATION Spec
CONSTANTS
  Clients = {c1, c2}
  Conns = {s1}
  Tracked = {"app", "tz"}
  Untracked = {"wm"}
  Values = {"d", "v1", "vq"}
  Default = "d"
  NONE = NONE
  MaxOps = 7
  Dev = {}
INVARIANTS ParamsFollowClient BeliefIsTruth
