SPECIFICATION Spec
CONSTANTS
  Clients = {c1, c2}
  MaxOps = 6
  Dev = {"refused_request_leaves_waiting"}
INVARIANTS RowsAreClients StatesTrue CountsTrue
