---------------------------- MODULE Trace_Params ----------------------------
(* Recorded sessions: what each client established (startup packet, its own SETs) against the values the mock   *)
(* backend session actually had when it executed that client's statement, and the ParameterStatus the client got *)
EXTENDS Integers, Sequences, FiniteSets, TLC, Json, IOUtils, TLCExt
Rec == ndJsonDeserialize(IOEnv.TRACE)
TrackedP == {"application_name", "TimeZone", "DateStyle", "client_encoding", "standard_conforming_strings"}
Cl == {"A", "B", "C"}
VARIABLES l, sc, seen, want, told
tv == <<l, sc, seen, want, told>>
E == Rec[l]
Report(kind, detail) ==
  IF kind \in seen THEN TRUE
  ELSE PrintT(<<"VIOL", ToJson([sc |-> sc, line |-> l, kind |-> kind, detail |-> detail])>>)
Flag(c, kind, detail) == IF c THEN Report(kind, detail) ELSE TRUE
K(pairs) == UNION {IF p[1] THEN {p[2]} ELSE {} : p \in pairs}
Empty == [c \in Cl |-> [p \in TrackedP |-> ""]]
TInit == l = 1 /\ sc = 0 /\ seen = {} /\ want = Empty /\ told = Empty
Reset == /\ E.ev = "reset" /\ sc' = E.sc /\ seen' = {} /\ want' = Empty /\ told' = Empty
\* the client connected: its session values are the ones of its startup packet (defaults where it sent none);
\* E.told = the ParameterStatus values the pooler gave it at startup
Startup == /\ E.ev = "startup"
           /\ want' = [want EXCEPT ![E.c] = [p \in TrackedP |-> E.vals[p]]]
           /\ told' = [told EXCEPT ![E.c] = [p \in TrackedP |-> E.told[p]]]
           /\ LET bad == {p \in TrackedP : E.told[p] # E.vals[p]} IN
                /\ Flag(bad # {}, "startup_status_mismatch", [client |-> E.c, params |-> bad])
                /\ seen' = seen \cup K({<<bad # {}, "startup_status_mismatch">>})
           /\ UNCHANGED sc
\* the client's own SET of a tracked parameter, acknowledged by the server
SetEv == /\ E.ev = "set"
         /\ want' = IF E.p \in TrackedP /\ E.ok THEN [want EXCEPT ![E.c][E.p] = E.v] ELSE want
         /\ told' = IF E.p \in TrackedP /\ E.reported # "" THEN [told EXCEPT ![E.c][E.p] = E.reported] ELSE told
         /\ LET v == E.p \in TrackedP /\ E.ok /\ E.reported # E.v IN
              /\ Flag(v, "status_mismatch", [client |-> E.c, param |-> E.p, set |-> E.v, told |-> E.reported])
              /\ seen' = seen \cup K({<<v, "status_mismatch">>})
         /\ UNCHANGED sc
\* a statement of client c ran on a backend session whose parameters were E.vals
Exec == /\ E.ev = "exec"
        /\ LET bad == {p \in TrackedP : E.vals[p] # want[E.c][p]}
               v2 == E.foreign # ""
           IN /\ Flag(bad # {}, "wrong_value", [client |-> E.c, params |-> bad,
                                                session |-> [p \in bad |-> E.vals[p]], client_value |-> [p \in bad |-> want[E.c][p]]])
              /\ Flag(v2, "foreign_value", [client |-> E.c, param |-> E.foreign])
              /\ seen' = seen \cup K({<<bad # {}, "wrong_value">>, <<v2, "foreign_value">>})
        /\ UNCHANGED <<sc, want, told>>
Step == /\ l <= Len(Rec) /\ l' = l + 1 /\ (Reset \/ Startup \/ SetEv \/ Exec)
TSpec == TInit /\ [][Step]_tv
Accepted == /\ PrintT(<<"MATCHED", ToString(TLCGet("stats").diameter - 1)>>)
            /\ TLCGet("stats").diameter - 1 = Len(Rec)
=============================================================================
