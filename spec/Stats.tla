-------------------------------- MODULE Stats --------------------------------
(***************************************************************************)
(* Admin statistics (src/stats.rs registries, src/stats/client.rs /         *)
(* server.rs / pool.rs / address.rs, the SHOW handlers in src/admin.rs).    *)
(* A ledger of what really happened - who is connected, in which state, how *)
(* many requests and transactions each client completed - against what the  *)
(* registries say.                                                           *)
(*   reg       - clients that have a row in SHOW CLIENTS                     *)
(*   rstate    - the state shown for them                                    *)
(*   rq, rx    - their query / transaction counters                          *)
(* Dev: "abnormal_exit_keeps_row" (a task that ends by panic never           *)
(*      unregisters), "copy_counts_twice" (COPY FROM STDIN reports the        *)
(*      transaction at CopyInResponse and at CopyDone),                      *)
(*      "refused_request_leaves_waiting" (a request that is refused before   *)
(*      any server is involved - no such shard, no connection within the      *)
(*      timeout - leaves the client shown as waiting),                       *)
(*      "cancel_registers_client" (the short-lived task that serves a        *)
(*      CancelRequest registers itself and is never removed).                 *)
(***************************************************************************)
EXTENDS Integers, FiniteSets, TLC

\* (the @type comments are for Apalache, which proves the invariants inductive for histories of any length: StatsApa.tla)
CONSTANTS
  \* @type: Set(Str);
  Clients,
  \* @type: Int;
  MaxOps,
  \* @type: Set(Str);
  Dev
VARIABLES
  \* ledger: connected clients, true state, requests, transactions
  \* @type: Set(Str);
  conn,
  \* @type: Str -> Str;
  state,
  \* @type: Str -> Int;
  q,
  \* @type: Str -> Int;
  x,
  \* registries
  \* @type: Set(Str);
  reg,
  \* @type: Str -> Str;
  rstate,
  \* @type: Str -> Int;
  rq,
  \* @type: Str -> Int;
  rx,
  \* registry rows that belong to no client at all
  \* @type: Int;
  ghosts,
  \* @type: Int;
  nops
vars == <<conn, state, q, x, reg, rstate, rq, rx, ghosts, nops>>
Z == [c \in Clients |-> 0]
Init == /\ conn = {} /\ state = [c \in Clients |-> "none"] /\ q = Z /\ x = Z
        /\ reg = {} /\ rstate = [c \in Clients |-> "none"] /\ rq = Z /\ rx = Z /\ ghosts = 0 /\ nops = 0

Op == nops < MaxOps /\ nops' = nops + 1

Connect(c) == /\ Op /\ c \notin conn /\ conn' = conn \cup {c} /\ state' = [state EXCEPT ![c] = "idle"]
              /\ reg' = reg \cup {c} /\ rstate' = [rstate EXCEPT ![c] = "idle"]
              /\ q' = [q EXCEPT ![c] = 0] /\ x' = [x EXCEPT ![c] = 0] /\ rq' = [rq EXCEPT ![c] = 0] /\ rx' = [rx EXCEPT ![c] = 0]
              /\ UNCHANGED ghosts
FailedLogin(c) == /\ Op /\ c \notin conn /\ UNCHANGED <<conn, state, q, x, reg, rstate, rq, rx, ghosts>>
\* a CancelRequest connection (valid key or not) is not a client: it comes and goes without a trace in the registries
CancelConn == /\ Op /\ ghosts' = ghosts + (IF "cancel_registers_client" \in Dev THEN 1 ELSE 0)
              /\ UNCHANGED <<conn, state, q, x, reg, rstate, rq, rx>>

\* a request inside a transaction (kind: "stmt" keeps it open, "last" ends it, "copy" = COPY FROM STDIN .. CopyDone alone)
Request(c, kind) ==
  /\ Op /\ c \in conn /\ kind \in {"stmt", "last", "copy"}
  /\ q' = [q EXCEPT ![c] = @ + 1] /\ rq' = [rq EXCEPT ![c] = @ + 1]
  /\ IF kind = "stmt"
     THEN /\ state' = [state EXCEPT ![c] = "active"] /\ rstate' = [rstate EXCEPT ![c] = "active"] /\ UNCHANGED <<x, rx>>
     ELSE /\ state' = [state EXCEPT ![c] = "idle"] /\ rstate' = [rstate EXCEPT ![c] = "idle"]
          /\ x' = [x EXCEPT ![c] = @ + 1]
          /\ rx' = [rx EXCEPT ![c] = @ + (IF kind = "copy" /\ "copy_counts_twice" \in Dev THEN 2 ELSE 1)]
  /\ UNCHANGED <<conn, reg, ghosts>>

\* a request outside a transaction that the pooler refuses before a server is involved: the client is idle again,
\* nothing was executed, nothing is counted
Refused(c) ==
  /\ Op /\ c \in conn /\ state[c] = "idle"
  /\ rstate' = [rstate EXCEPT ![c] = IF "refused_request_leaves_waiting" \in Dev THEN "waiting" ELSE "idle"]
  /\ UNCHANGED <<conn, state, q, x, reg, rq, rx, ghosts>>

\* the client leaves: how = "clean" (Terminate / EOF) or "abnormal" (its task ends by panic or an early error)
Leave(c, how) ==
  /\ Op /\ c \in conn /\ how \in {"clean", "abnormal"}
  /\ conn' = conn \ {c} /\ state' = [state EXCEPT ![c] = "none"]
  /\ IF how = "abnormal" /\ "abnormal_exit_keeps_row" \in Dev THEN UNCHANGED <<reg, rstate>>
     ELSE reg' = reg \ {c} /\ rstate' = [rstate EXCEPT ![c] = "none"]
  /\ UNCHANGED <<q, x, rq, rx, ghosts>>

Next == \E c \in Clients : Connect(c) \/ FailedLogin(c) \/ (\E k \in {"stmt", "last", "copy"} : Request(c, k))
                            \/ (\E h \in {"clean", "abnormal"} : Leave(c, h)) \/ Refused(c) \/ CancelConn
Spec == Init /\ [][Next]_vars

\* C18 at quiescent points (every state of this model is one)
RowsAreClients == reg = conn /\ ghosts = 0
StatesTrue == \A c \in conn : rstate[c] = state[c]
CountsTrue == \A c \in conn : rq[c] = q[c] /\ rx[c] = x[c]
=============================================================================
