--------------------------- MODULE Trace_Plugins ---------------------------
(* Replays recorded client sessions through the Plugins design model and    *)
(* compares, message by message, the reply class the model requires with    *)
(* what the client got, and what the mock backends saw with the model's fwd. *)
EXTENDS Plugins, Json, IOUtils, TLCExt
Rec == ndJsonDeserialize(IOEnv.TRACE)
VARIABLES l, sc, seen, on
tv == <<pvars, l, sc, seen, on>>
E == Rec[l]
Report(kind, detail) ==
  IF kind \in seen THEN TRUE
  ELSE PrintT(<<"VIOL", ToJson([sc |-> sc, line |-> l, kind |-> kind, detail |-> detail])>>)
Flag(c, kind, detail) == IF c THEN Report(kind, detail) ELSE TRUE
Kinds2(pairs) == UNION {IF p[1] THEN {p[2]} ELSE {} : p \in pairs}

TInit == PInit /\ l = 1 /\ sc = 0 /\ seen = {} /\ on = TRUE

Reset == /\ E.ev = "reset"
         /\ roleSel' = "default" /\ inTx' = FALSE /\ verdict' = "none" /\ batch' = <<>> /\ fwd' = <<>>
         /\ replies' = <<>> /\ n' = 0 /\ sc' = E.sc /\ seen' = {} /\ on' = E.plugins_on

TSetRole == /\ E.ev = "set_role" /\ roleSel' = E.arg
            /\ UNCHANGED <<inTx, verdict, batch, fwd, replies, n, sc, seen, on>>

TTx == /\ E.ev \in {"begin", "commit"} /\ inTx' = (E.ev = "begin")
       /\ UNCHANGED <<roleSel, verdict, batch, fwd, replies, n, sc, seen, on>>

\* One client message (simple query or Parse..Sync batch) with statement kinds E.kinds.
\* Required outcome (design, C19): plugins on and the parser accepted the message =>
\*   blocked anywhere -> "denied", nothing of the message at a server;
\*   a lone intercept statement -> exactly the configured rows, nothing at a server.
\* plugins off => never denied / intercepted.
TMsg ==
  /\ E.ev = "msg"
  /\ LET ks == E.kinds
         hasB == \E i \in DOMAIN ks : ks[i] = "blocked"
         loneI == Len(ks) = 1 /\ ks[1] = "intercept"
         anyReached == \E i \in DOMAIN E.reached : E.reached[i]
         v1 == on /\ E.parsed /\ hasB /\ anyReached
         req == RequiredReply(ks, on)
         v2 == E.parsed /\ req = "denied" /\ E.reply # "denied"
         v3 == ~on /\ E.reply = "denied"
         v4 == E.parsed /\ req = "intercepted" /\ (E.reply # "intercepted" \/ anyReached \/ ~E.rows_ok)
         v5 == ~on /\ E.reply = "intercepted"
     IN /\ Flag(v1, "blocked_reached_server", [kinds |-> ks, proto |-> E.proto, roleSel |-> roleSel, inTx |-> inTx,
                                                pos |-> E.pos, spelling |-> E.spelling, sql |-> E.sql])
        /\ Flag(v2, "blocked_not_denied", [kinds |-> ks, proto |-> E.proto, roleSel |-> roleSel, inTx |-> inTx,
                                            pos |-> E.pos, spelling |-> E.spelling, reply |-> E.reply, sql |-> E.sql])
        /\ Flag(v3, "denied_with_plugins_off", [sql |-> E.sql])
        /\ Flag(v4, "intercept_wrong", [reply |-> E.reply, reached |-> anyReached, rows_ok |-> E.rows_ok, roleSel |-> roleSel,
                                         proto |-> E.proto, sql |-> E.sql])
        /\ Flag(v5, "intercepted_with_plugins_off", [sql |-> E.sql])
        /\ seen' = seen \cup Kinds2({<<v1, "blocked_reached_server">>, <<v2, "blocked_not_denied">>,
                                     <<v3, "denied_with_plugins_off">>, <<v4, "intercept_wrong">>,
                                     <<v5, "intercepted_with_plugins_off">>})
        /\ fwd' = fwd \o SelectSeq(ks, LAMBDA k : FALSE)
  /\ UNCHANGED <<roleSel, inTx, verdict, batch, replies, n, sc, on>>

\* Bind(name) Execute Sync for a name whose Parse was sent earlier: whatever the reply, a statement the plugins refuse or
\* answer themselves must not run on a server
TBind ==
  /\ E.ev = "bind"
  /\ LET ks == E.kinds
         v1 == on /\ E.reached /\ \E i \in DOMAIN ks : ks[i] \in {"blocked", "intercept"}
     IN /\ Flag(v1, "blocked_reached_server", [kinds |-> ks, proto |-> "bind_of_named", roleSel |-> roleSel, inTx |-> inTx,
                                                pos |-> "", spelling |-> "", sql |-> E.reply])
        /\ seen' = seen \cup Kinds2({<<v1, "blocked_reached_server">>})
  /\ UNCHANGED <<roleSel, inTx, verdict, batch, fwd, replies, n, sc, on>>

Step == /\ l <= Len(Rec) /\ l' = l + 1 /\ named' = named /\ pendName' = pendName /\ (Reset \/ TSetRole \/ TTx \/ TMsg \/ TBind)
TSpec == TInit /\ [][Step]_tv
Accepted == /\ PrintT(<<"MATCHED", ToString(TLCGet("stats").diameter - 1)>>)
            /\ TLCGet("stats").diameter - 1 = Len(Rec)
=============================================================================
