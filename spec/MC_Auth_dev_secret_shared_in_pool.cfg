SPECIFICATION Spec
CONSTANT Dev = {"secret_shared_in_pool"}
INVARIANTS NoOkWithoutCredentials OnlyValidAdmitted AdmittedOnlyByRule
