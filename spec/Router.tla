------------------------------- MODULE Router -------------------------------
(***************************************************************************)
(* pgcat's per-client routing state (src/query_router.rs) and the part of   *)
(* Client::handle that drives it (src/client.rs outer loop, custom protocol *)
(* commands, pool.get role/shard filter in src/pool.rs).                     *)
(*                                                                          *)
(* The module states what properties C05, C06 and C13 REQUIRE of the        *)
(* routing decision as functions of the session history; where the          *)
(* statements are silent the expectation is "dontcare".                     *)
(***************************************************************************)
EXTENDS Integers, Sequences, FiniteSets, TLC, PgHash

VARIABLES
  cfg,        \* pool configuration: [default_role, parser, rwsplit, primary_reads, nshards]
  roleSel,    \* last SET SERVER ROLE: "default" | "primary" | "replica" | "any" | "auto"
  prSel,      \* last SET PRIMARY READS: "default" | "on" | "off"
  shardSel,   \* selected shard: -1 = unset, -2 = not determined by the statement, else 0..NShards-1
  lastClass   \* class of the previous parsed statement in this session ("none" at start)

rvars == <<cfg, roleSel, prSel, shardSel, lastClass>>

DefaultRole == cfg.default_role
ParserOn == cfg.parser
RWSplit == cfg.rwsplit
PrimaryReads == cfg.primary_reads
NShards == cfg.nshards

\* pgcat's config validation refuses read/write splitting without the parser
Configs == {c \in [default_role : {"any", "primary", "replica"}, parser : BOOLEAN, rwsplit : BOOLEAN,
                    primary_reads : BOOLEAN, nshards : {3}] : c.rwsplit => c.parser}

\* PluginsConfigured: whether the pool has a [plugins] section is deliberately NOT a field of Configs - no routing rule
\* depends on it.  The harness replays a third of the parser-enabled sessions on pools with plugins configured
\* (enabled or not) and the same expectations apply.
RoleWords == {"primary", "replica", "any", "auto", "default"}
PrWords == {"on", "off", "default"}

\* Statement classes.  Everything except "read" and the two silent ones contains
\* "something other than plain reads".
\* multi_txr / multi_txw: a message that starts a transaction and continues with reads / writes
WriteClasses == {"insert", "update", "delete", "ddl", "utility", "txstart", "locking_read",
                 "writing_cte", "select_into", "multi_rw", "multi_wr", "multi_txr", "multi_txw", "multi_rtx"}
ReadClasses == {"read", "multi_rr"}
SilentClasses == {"unparseable", "empty"}
Classes == WriteClasses \cup ReadClasses \cup SilentClasses

RInit == cfg \in Configs /\ roleSel = "default" /\ prSel = "default" /\ shardSel = -1 /\ lastClass = "none"

ParserEffective == IF roleSel \in {"primary", "replica", "any"} THEN FALSE
                   ELSE IF roleSel = "auto" THEN TRUE ELSE ParserOn
PrimaryReadsEffective == IF prSel = "default" THEN PrimaryReads ELSE prSel = "on"

\* ---- C13: the command language changes the state like this
\* an explicit SET SERVER ROLE replaces whatever inference did to the session's role since the last one
SetServerRole(w) == /\ w \in RoleWords /\ roleSel' = w /\ lastClass' = "none" /\ UNCHANGED <<cfg, prSel, shardSel>>
SetPrimaryReads(w) == /\ w \in PrWords /\ prSel' = w /\ UNCHANGED <<cfg, roleSel, shardSel, lastClass>>
\* SET SHARD TO k: refused when out of range, state unchanged
SetShard(k) == /\ shardSel' = IF k >= 0 /\ k < NShards THEN k ELSE shardSel
               /\ UNCHANGED <<cfg, roleSel, prSel, lastClass>>
\* SET SHARDING KEY TO k (key given as sign + two 32-bit halves on 16-bit limbs)
SetShardingKey(neg, hi, lo) == /\ shardSel' = PgShard(neg, hi, lo, NShards)
                               /\ UNCHANGED <<cfg, roleSel, prSel, lastClass>>

ShowServerRoleValue ==
  CASE roleSel \in {"primary", "replica"} -> roleSel
    [] roleSel = "any" -> "any"
    [] roleSel = "auto" -> IF lastClass = "none" THEN "auto" ELSE "dontcare"  \* inference may have run since
    \* default (also: no SET at all): the pool's default role; without one, "auto" when the pool parses queries, else "any";
    \* once statements have been routed inference may have changed it - not specified
    [] OTHER -> IF lastClass # "none" THEN "dontcare"
                ELSE IF cfg.default_role \in {"primary", "replica"} THEN cfg.default_role
                ELSE IF ParserOn THEN "auto" ELSE "any"
ShowPrimaryReadsValue == IF PrimaryReadsEffective THEN "on" ELSE "off"
ShowShardValue == IF shardSel = -1 THEN "unset" ELSE IF shardSel = -2 THEN "dontcare" ELSE ToString(shardSel)

\* ---- C05: where the first statement of a new transaction must run
\* "primary" | "replica" | "any" (either role acceptable) | "dontcare"
ExpectedRole(class) ==
  CASE roleSel \in {"primary", "replica"} -> roleSel
    [] roleSel = "any" -> "any"
    [] ~ParserEffective \/ ~RWSplit -> "dontcare"
    [] class \in WriteClasses -> "primary"
    [] class \in ReadClasses -> IF PrimaryReadsEffective THEN "any" ELSE "replica"
    [] OTHER -> "dontcare"

RoleOk(expected, landed) ==
  \/ expected \in {"any", "dontcare"}
  \/ expected = landed

\* ---- C06: the shard a statement must run on: the selection persists
ExpectedShard == shardSel   \* -1: not specified by the statement (default_shard rules)

Stmt(class) == /\ class \in Classes /\ lastClass' = class /\ UNCHANGED <<cfg, roleSel, prSel, shardSel>>
=============================================================================
