---- MODULE PoolCore_TTrace_1790348554 ----
EXTENDS Sequences, TLCExt, PoolCore_TEConstants, PoolCore, Toolbox, Naturals, TLC

_expression ==
    LET PoolCore_TEExpression == INSTANCE PoolCore_TEExpression
    IN PoolCore_TEExpression!expression
----

_trace ==
    LET PoolCore_TETrace == INSTANCE PoolCore_TETrace
    IN PoolCore_TETrace!trace
----

_inv ==
    ~(
        TLCGet("level") = Len(_TETrace)
        /\
        dirty = ((s1 :> FALSE @@ s2 :> FALSE))
        /\
        nmsg = ((c1 :> 2 @@ c2 :> 0))
        /\
        tUnread = ((s1 :> FALSE @@ s2 :> FALSE))
        /\
        bad = ((s1 :> FALSE @@ s2 :> FALSE))
        /\
        alive = ((s1 :> TRUE @@ s2 :> FALSE))
        /\
        last = ((s1 :> c1 @@ s2 :> NONE))
        /\
        idle = ((s1 :> FALSE @@ s2 :> FALSE))
        /\
        held = ((c1 :> s1 @@ c2 :> NONE))
        /\
        bTx = ((s1 :> FALSE @@ s2 :> FALSE))
        /\
        viol = ({})
        /\
        bData = ((s1 :> FALSE @@ s2 :> FALSE))
        /\
        tCopy = ((s1 :> "no" @@ s2 :> "no"))
        /\
        bCopy = ((s1 :> TRUE @@ s2 :> FALSE))
        /\
        pc = ((c1 :> "intx" @@ c2 :> "off"))
        /\
        cmap = ((c1 :> s1 @@ c2 :> NONE))
        /\
        tPend = ((s1 :> NONE @@ s2 :> NONE))
        /\
        tDirt = ((s1 :> NONE @@ s2 :> NONE))
        /\
        tTx = ((s1 :> "I" @@ s2 :> "I"))
        /\
        pend = ((c1 :> "begin" @@ c2 :> NONE))
    )
----

_init ==
    /\ bad = _TETrace[1].bad
    /\ bTx = _TETrace[1].bTx
    /\ bCopy = _TETrace[1].bCopy
    /\ tCopy = _TETrace[1].tCopy
    /\ viol = _TETrace[1].viol
    /\ idle = _TETrace[1].idle
    /\ tTx = _TETrace[1].tTx
    /\ cmap = _TETrace[1].cmap
    /\ dirty = _TETrace[1].dirty
    /\ alive = _TETrace[1].alive
    /\ nmsg = _TETrace[1].nmsg
    /\ pend = _TETrace[1].pend
    /\ pc = _TETrace[1].pc
    /\ tUnread = _TETrace[1].tUnread
    /\ last = _TETrace[1].last
    /\ held = _TETrace[1].held
    /\ bData = _TETrace[1].bData
    /\ tPend = _TETrace[1].tPend
    /\ tDirt = _TETrace[1].tDirt
----

_next ==
    /\ \E i,j \in DOMAIN _TETrace:
        /\ \/ /\ j = i + 1
              /\ i = TLCGet("level")
        /\ bad  = _TETrace[i].bad
        /\ bad' = _TETrace[j].bad
        /\ bTx  = _TETrace[i].bTx
        /\ bTx' = _TETrace[j].bTx
        /\ bCopy  = _TETrace[i].bCopy
        /\ bCopy' = _TETrace[j].bCopy
        /\ tCopy  = _TETrace[i].tCopy
        /\ tCopy' = _TETrace[j].tCopy
        /\ viol  = _TETrace[i].viol
        /\ viol' = _TETrace[j].viol
        /\ idle  = _TETrace[i].idle
        /\ idle' = _TETrace[j].idle
        /\ tTx  = _TETrace[i].tTx
        /\ tTx' = _TETrace[j].tTx
        /\ cmap  = _TETrace[i].cmap
        /\ cmap' = _TETrace[j].cmap
        /\ dirty  = _TETrace[i].dirty
        /\ dirty' = _TETrace[j].dirty
        /\ alive  = _TETrace[i].alive
        /\ alive' = _TETrace[j].alive
        /\ nmsg  = _TETrace[i].nmsg
        /\ nmsg' = _TETrace[j].nmsg
        /\ pend  = _TETrace[i].pend
        /\ pend' = _TETrace[j].pend
        /\ pc  = _TETrace[i].pc
        /\ pc' = _TETrace[j].pc
        /\ tUnread  = _TETrace[i].tUnread
        /\ tUnread' = _TETrace[j].tUnread
        /\ last  = _TETrace[i].last
        /\ last' = _TETrace[j].last
        /\ held  = _TETrace[i].held
        /\ held' = _TETrace[j].held
        /\ bData  = _TETrace[i].bData
        /\ bData' = _TETrace[j].bData
        /\ tPend  = _TETrace[i].tPend
        /\ tPend' = _TETrace[j].tPend
        /\ tDirt  = _TETrace[i].tDirt
        /\ tDirt' = _TETrace[j].tDirt

\* Uncomment the ASSUME below to write the states of the error trace
\* to the given file in Json format. Note that you can pass any tuple
\* to `JsonSerialize`. For example, a sub-sequence of _TETrace.
    \* ASSUME
    \*     LET J == INSTANCE Json
    \*         IN J!JsonSerialize("PoolCore_TTrace_1790348554.json", _TETrace)

=============================================================================

 Note that you can extract this module `PoolCore_TEExpression`
  to a dedicated file to reuse `expression` (the module in the 
  dedicated `PoolCore_TEExpression.tla` file takes precedence 
  over the module `PoolCore_TEExpression` below).

---- MODULE PoolCore_TEExpression ----
EXTENDS Sequences, TLCExt, PoolCore_TEConstants, PoolCore, Toolbox, Naturals, TLC

expression == 
    [
        \* To hide variables of the `PoolCore` spec from the error trace,
        \* remove the variables below.  The trace will be written in the order
        \* of the fields of this record.
        bad |-> bad
        ,bTx |-> bTx
        ,bCopy |-> bCopy
        ,tCopy |-> tCopy
        ,viol |-> viol
        ,idle |-> idle
        ,tTx |-> tTx
        ,cmap |-> cmap
        ,dirty |-> dirty
        ,alive |-> alive
        ,nmsg |-> nmsg
        ,pend |-> pend
        ,pc |-> pc
        ,tUnread |-> tUnread
        ,last |-> last
        ,held |-> held
        ,bData |-> bData
        ,tPend |-> tPend
        ,tDirt |-> tDirt
        
        \* Put additional constant-, state-, and action-level expressions here:
        \* ,_stateNumber |-> _TEPosition
        \* ,_badUnchanged |-> bad = bad'
        
        \* Format the `bad` variable as Json value.
        \* ,_badJson |->
        \*     LET J == INSTANCE Json
        \*     IN J!ToJson(bad)
        
        \* Lastly, you may build expressions over arbitrary sets of states by
        \* leveraging the _TETrace operator.  For example, this is how to
        \* count the number of times a spec variable changed up to the current
        \* state in the trace.
        \* ,_badModCount |->
        \*     LET F[s \in DOMAIN _TETrace] ==
        \*         IF s = 1 THEN 0
        \*         ELSE IF _TETrace[s].bad # _TETrace[s-1].bad
        \*             THEN 1 + F[s-1] ELSE F[s-1]
        \*     IN F[_TEPosition - 1]
    ]

=============================================================================



Parsing and semantic processing can take forever if the trace below is long.
 In this case, it is advised to uncomment the module below to deserialize the
 trace from a generated binary file.

\*
\*---- MODULE PoolCore_TETrace ----
\*EXTENDS IOUtils, PoolCore_TEConstants, PoolCore, TLC
\*
\*trace == IODeserialize("PoolCore_TTrace_1790348554.bin", TRUE)
\*
\*=============================================================================
\*

---- MODULE PoolCore_TETrace ----
EXTENDS PoolCore_TEConstants, PoolCore, TLC

trace == 
    <<
    ([dirty |-> (s1 :> FALSE @@ s2 :> FALSE),nmsg |-> (c1 :> 0 @@ c2 :> 0),tUnread |-> (s1 :> FALSE @@ s2 :> FALSE),bad |-> (s1 :> FALSE @@ s2 :> FALSE),alive |-> (s1 :> FALSE @@ s2 :> FALSE),last |-> (s1 :> NONE @@ s2 :> NONE),idle |-> (s1 :> FALSE @@ s2 :> FALSE),held |-> (c1 :> NONE @@ c2 :> NONE),bTx |-> (s1 :> FALSE @@ s2 :> FALSE),viol |-> {},bData |-> (s1 :> FALSE @@ s2 :> FALSE),tCopy |-> (s1 :> "no" @@ s2 :> "no"),bCopy |-> (s1 :> FALSE @@ s2 :> FALSE),pc |-> (c1 :> "off" @@ c2 :> "off"),cmap |-> (c1 :> NONE @@ c2 :> NONE),tPend |-> (s1 :> NONE @@ s2 :> NONE),tDirt |-> (s1 :> NONE @@ s2 :> NONE),tTx |-> (s1 :> "I" @@ s2 :> "I"),pend |-> (c1 :> NONE @@ c2 :> NONE)]),
    ([dirty |-> (s1 :> FALSE @@ s2 :> FALSE),nmsg |-> (c1 :> 0 @@ c2 :> 0),tUnread |-> (s1 :> FALSE @@ s2 :> FALSE),bad |-> (s1 :> FALSE @@ s2 :> FALSE),alive |-> (s1 :> FALSE @@ s2 :> FALSE),last |-> (s1 :> NONE @@ s2 :> NONE),idle |-> (s1 :> FALSE @@ s2 :> FALSE),held |-> (c1 :> NONE @@ c2 :> NONE),bTx |-> (s1 :> FALSE @@ s2 :> FALSE),viol |-> {},bData |-> (s1 :> FALSE @@ s2 :> FALSE),tCopy |-> (s1 :> "no" @@ s2 :> "no"),bCopy |-> (s1 :> FALSE @@ s2 :> FALSE),pc |-> (c1 :> "idle" @@ c2 :> "off"),cmap |-> (c1 :> NONE @@ c2 :> NONE),tPend |-> (s1 :> NONE @@ s2 :> NONE),tDirt |-> (s1 :> NONE @@ s2 :> NONE),tTx |-> (s1 :> "I" @@ s2 :> "I"),pend |-> (c1 :> NONE @@ c2 :> NONE)]),
    ([dirty |-> (s1 :> FALSE @@ s2 :> FALSE),nmsg |-> (c1 :> 1 @@ c2 :> 0),tUnread |-> (s1 :> FALSE @@ s2 :> FALSE),bad |-> (s1 :> FALSE @@ s2 :> FALSE),alive |-> (s1 :> FALSE @@ s2 :> FALSE),last |-> (s1 :> NONE @@ s2 :> NONE),idle |-> (s1 :> FALSE @@ s2 :> FALSE),held |-> (c1 :> NONE @@ c2 :> NONE),bTx |-> (s1 :> FALSE @@ s2 :> FALSE),viol |-> {},bData |-> (s1 :> FALSE @@ s2 :> FALSE),tCopy |-> (s1 :> "no" @@ s2 :> "no"),bCopy |-> (s1 :> FALSE @@ s2 :> FALSE),pc |-> (c1 :> "wait" @@ c2 :> "off"),cmap |-> (c1 :> NONE @@ c2 :> NONE),tPend |-> (s1 :> NONE @@ s2 :> NONE),tDirt |-> (s1 :> NONE @@ s2 :> NONE),tTx |-> (s1 :> "I" @@ s2 :> "I"),pend |-> (c1 :> "copyin" @@ c2 :> NONE)]),
    ([dirty |-> (s1 :> FALSE @@ s2 :> FALSE),nmsg |-> (c1 :> 1 @@ c2 :> 0),tUnread |-> (s1 :> FALSE @@ s2 :> FALSE),bad |-> (s1 :> FALSE @@ s2 :> FALSE),alive |-> (s1 :> TRUE @@ s2 :> FALSE),last |-> (s1 :> NONE @@ s2 :> NONE),idle |-> (s1 :> FALSE @@ s2 :> FALSE),held |-> (c1 :> s1 @@ c2 :> NONE),bTx |-> (s1 :> FALSE @@ s2 :> FALSE),viol |-> {},bData |-> (s1 :> FALSE @@ s2 :> FALSE),tCopy |-> (s1 :> "no" @@ s2 :> "no"),bCopy |-> (s1 :> FALSE @@ s2 :> FALSE),pc |-> (c1 :> "fwd" @@ c2 :> "off"),cmap |-> (c1 :> s1 @@ c2 :> NONE),tPend |-> (s1 :> NONE @@ s2 :> NONE),tDirt |-> (s1 :> NONE @@ s2 :> NONE),tTx |-> (s1 :> "I" @@ s2 :> "I"),pend |-> (c1 :> "copyin" @@ c2 :> NONE)]),
    ([dirty |-> (s1 :> FALSE @@ s2 :> FALSE),nmsg |-> (c1 :> 1 @@ c2 :> 0),tUnread |-> (s1 :> FALSE @@ s2 :> FALSE),bad |-> (s1 :> FALSE @@ s2 :> FALSE),alive |-> (s1 :> TRUE @@ s2 :> FALSE),last |-> (s1 :> c1 @@ s2 :> NONE),idle |-> (s1 :> FALSE @@ s2 :> FALSE),held |-> (c1 :> s1 @@ c2 :> NONE),bTx |-> (s1 :> FALSE @@ s2 :> FALSE),viol |-> {},bData |-> (s1 :> FALSE @@ s2 :> FALSE),tCopy |-> (s1 :> "in" @@ s2 :> "no"),bCopy |-> (s1 :> TRUE @@ s2 :> FALSE),pc |-> (c1 :> "intx" @@ c2 :> "off"),cmap |-> (c1 :> s1 @@ c2 :> NONE),tPend |-> (s1 :> NONE @@ s2 :> NONE),tDirt |-> (s1 :> NONE @@ s2 :> NONE),tTx |-> (s1 :> "I" @@ s2 :> "I"),pend |-> (c1 :> "copyin" @@ c2 :> NONE)]),
    ([dirty |-> (s1 :> FALSE @@ s2 :> FALSE),nmsg |-> (c1 :> 2 @@ c2 :> 0),tUnread |-> (s1 :> FALSE @@ s2 :> FALSE),bad |-> (s1 :> FALSE @@ s2 :> FALSE),alive |-> (s1 :> TRUE @@ s2 :> FALSE),last |-> (s1 :> c1 @@ s2 :> NONE),idle |-> (s1 :> FALSE @@ s2 :> FALSE),held |-> (c1 :> s1 @@ c2 :> NONE),bTx |-> (s1 :> FALSE @@ s2 :> FALSE),viol |-> {},bData |-> (s1 :> FALSE @@ s2 :> FALSE),tCopy |-> (s1 :> "in" @@ s2 :> "no"),bCopy |-> (s1 :> TRUE @@ s2 :> FALSE),pc |-> (c1 :> "fwd" @@ c2 :> "off"),cmap |-> (c1 :> s1 @@ c2 :> NONE),tPend |-> (s1 :> NONE @@ s2 :> NONE),tDirt |-> (s1 :> NONE @@ s2 :> NONE),tTx |-> (s1 :> "I" @@ s2 :> "I"),pend |-> (c1 :> "begin" @@ c2 :> NONE)]),
    ([dirty |-> (s1 :> FALSE @@ s2 :> FALSE),nmsg |-> (c1 :> 2 @@ c2 :> 0),tUnread |-> (s1 :> FALSE @@ s2 :> FALSE),bad |-> (s1 :> FALSE @@ s2 :> FALSE),alive |-> (s1 :> TRUE @@ s2 :> FALSE),last |-> (s1 :> c1 @@ s2 :> NONE),idle |-> (s1 :> FALSE @@ s2 :> FALSE),held |-> (c1 :> s1 @@ c2 :> NONE),bTx |-> (s1 :> FALSE @@ s2 :> FALSE),viol |-> {},bData |-> (s1 :> FALSE @@ s2 :> FALSE),tCopy |-> (s1 :> "no" @@ s2 :> "no"),bCopy |-> (s1 :> TRUE @@ s2 :> FALSE),pc |-> (c1 :> "intx" @@ c2 :> "off"),cmap |-> (c1 :> s1 @@ c2 :> NONE),tPend |-> (s1 :> NONE @@ s2 :> NONE),tDirt |-> (s1 :> NONE @@ s2 :> NONE),tTx |-> (s1 :> "I" @@ s2 :> "I"),pend |-> (c1 :> "begin" @@ c2 :> NONE)])
    >>
----


=============================================================================

---- MODULE PoolCore_TEConstants ----
EXTENDS PoolCore

CONSTANTS c1, c2, s1, s2

=============================================================================

---- CONFIG PoolCore_TTrace_1790348554 ----
CONSTANTS
    Clients = { c1 , c2 }
    Conns = { s1 , s2 }
    NONE = NONE
    PoolSize = 1
    TxMode = TRUE
    Dev = { "error_keeps_copy_mode" }
    MaxMsgs = 3
    s2 = s2
    c1 = c1
    s1 = s1
    NONE = NONE
    c2 = c2

INVARIANT
    _inv

CHECK_DEADLOCK
    \* CHECK_DEADLOCK off because of PROPERTY or INVARIANT above.
    FALSE

INIT
    _init

NEXT
    _next

CONSTANT
    _TETrace <- _trace

ALIAS
    _expression
=============================================================================
\* Generated on Fri Sep 25 15:02:35 UTC 2026