SPECIFICATION GSpec
CONSTANTS
  Clients = {"A", "B"}
  Admins = {"ADM"}
  AllowBacklog = FALSE
  Dev = {}
  Depth = 6
INVARIANT Emit
