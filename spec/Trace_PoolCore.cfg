SPECIFICATION TSpec
CONSTANTS
  Clients <- TClients
  Conns <- TConns
  NONE = NONE
  PoolSize = 1
  TxMode = TRUE
  Dev = {}
  MaxMsgs = 0
POSTCONDITION Accepted
CHECK_DEADLOCK FALSE
