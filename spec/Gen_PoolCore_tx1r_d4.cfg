SPECIFICATION GSpec
CONSTANTS
  Clients = {"A", "B"}
  Actors = {"A"}
  Probes = {"B"}
  Conns = {"s1", "s2"}
  NONE = NONE
  PoolSize = 1
  TxMode = TRUE
  Dev = {}
  MaxMsgs = 3
  Depth = 4
  ProbesLast = FALSE
  Extras = {"reap"}
  ActorKinds = {"begin", "stmt", "fail", "set", "prep", "copyin", "copyin2", "big", "slow", "local", "reset1", "commit", "copydone", "copyfail"}
INVARIANT Emit
