SPECIFICATION PSpec
CONSTANTS
  PluginsOn = TRUE
  Dev = {"verdict_overwrite", "plugins_follow_parser_override"}
  MaxMsgs = 4
INVARIANTS NeverForwarded NothingBlockedWhenOff
