SPECIFICATION Spec
CONSTANTS
  Clients = {c1, c2}
  Admins = {a1}
  AllowBacklog = FALSE
  Dev = {"exit_on_any_drain"}
INVARIANTS NoLoginAfterSigint Graceful TxNotCut
PROPERTY ExitsWhenDrained
