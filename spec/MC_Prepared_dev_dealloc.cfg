SPECIFICATION Spec
CONSTANTS
  Clients = {c1, c2}
  Conns = {s1}
  Names = {n1}
  Stmts = {"q1", "bad"}
  BAD = "bad"
  NONE = NONE
  MaxBatches = 3
  MaxLen = 3
  Dev = {"dealloc_keeps_belief"}
INVARIANTS NoSpurious BeliefSound
