----------------------------- MODULE PauseApa ------------------------------
(***************************************************************************)
(* Unbounded check of the Pause design's safety property with Apalache:     *)
(* IndInv (which contains HeldWhilePaused) holds initially and is preserved *)
(* by every step - any number of PAUSE / RESUME / RELOAD / client steps.    *)
(* (Liveness - AllProceed - stays with TLC.)                                 *)
(*   apalache-mc check --cinit=ConstInit --init=Init    --inv=IndInv --length=0 PauseApa.tla *)
(*   apalache-mc check --cinit=ConstInit --init=IndInit --inv=IndInv --length=1 PauseApa.tla *)
(***************************************************************************)
EXTENDS Pause

ConstInit == Clients = {"c1", "c2", "c3"} /\ MaxOps = 1000000 /\ Dev = {}
\* negative control: with a re-created pool that starts with a flag and a Notify of its own, clients are left behind on
\* the old object (the conjunct "every client is on the current pool object" is not preserved)
ConstInitForgets == Clients = {"c1", "c2", "c3"} /\ MaxOps = 1000000 /\ Dev = {"recreated_pool_forgets_pause"}

PCs == {"idle", "start", "created", "read", "await", "go"}
TypeOK ==
  /\ obj \in Objs /\ paused \in [Objs -> BOOLEAN] /\ gen \in [Objs -> Int]
  /\ pc \in [Clients -> PCs] /\ cobj \in [Clients -> Objs] /\ cap \in [Clients -> Int]
  /\ saw \in [Clients -> BOOLEAN] /\ rpc \in {"none", "half"} /\ nops \in 0..MaxOps
  /\ started \in SUBSET Clients

IndInv ==
  /\ TypeOK
  /\ started = {}
  \* a registered waiter captured a generation that is not ahead of its pool's
  /\ \A c \in Clients : pc[c] \in {"created", "await", "go"} => cap[c] <= gen[cobj[c]]
  \* a client that saw the flag set passes only after a notification
  /\ \A c \in Clients : pc[c] = "go" /\ saw[c] => cap[c] < gen[cobj[c]]
  \* flag and Notify are shared across re-creations: every client is (moved to) the current pool object
  /\ \A c \in Clients : cobj[c] = obj
  \* the design never uses the deviation's intermediate state
  /\ \A c \in Clients : pc[c] # "read"
IndInit == IndInv
=============================================================================
