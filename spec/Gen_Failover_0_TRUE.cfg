SPECIFICATION GSpec
CONSTANTS
  Replicas = {}
  HasPrimary = TRUE
  BanTime = 2
  MaxOps = 6
  Dev = {}
INVARIANT Emit
