SPECIFICATION TSpec
CONSTANTS
  Clients = {"X", "Y"}
  Defs = {"A", "B", "R", "P"}
  MaxOps = 0
  Dev = {}
POSTCONDITION Accepted
CHECK_DEADLOCK FALSE
