SPECIFICATION TSpec
CONSTANTS
  Clients = {"X", "Y"}
  Defs = {"A", "B", "R"}
  MaxOps = 0
  Dev = {}
POSTCONDITION Accepted
CHECK_DEADLOCK FALSE
