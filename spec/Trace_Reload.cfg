SPECIFICATION TSpec
CONSTANTS
  Clients = {"X", "Y"}
  Defs = {"A", "B"}
  MaxOps = 0
  Dev = {}
POSTCONDITION Accepted
CHECK_DEADLOCK FALSE
