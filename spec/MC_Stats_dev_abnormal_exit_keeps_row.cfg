SPECIFICATION Spec
CONSTANTS
  Clients = {c1, c2}
  MaxOps = 6
  Dev = {"abnormal_exit_keeps_row"}
INVARIANTS RowsAreClients StatesTrue CountsTrue
