INIT Init
NEXT Next
