SPECIFICATION RSpec
CONSTANTS
  T = 8196
  Window = 8196
  Dev = {}
  MaxLen = 5
  Small = 40
  Big = 9000
INVARIANT EmitStream
