--------------------------- MODULE Trace_Failover ---------------------------
(***************************************************************************)
(* Validates recorded failover scenarios (harness order, lock-step) against *)
(* the rules of Failover.tla.  mode: what the harness made each mock server *)
(* do; hb / hbt: the ban list as told by pgcat's ban / unban hook events     *)
(* (attached to the step during which they occurred) and the time of the     *)
(* ban; every transaction record says who served it, what the client saw,    *)
(* which candidates pgcat tried and found broken, and how long it took.      *)
(***************************************************************************)
EXTENDS Integers, Sequences, FiniteSets, TLC, Json, IOUtils, TLCExt
Rec == ndJsonDeserialize(IOEnv.TRACE)
AllS == {"p", "r1", "r2", "r3"}
VARIABLES l, sc, seen, mode, hb, hbt, srv, bantime, adminban,
          shaky   \* servers that were faulted and have not served since: their pooled connections may be dead
tv == <<l, sc, seen, mode, hb, hbt, srv, bantime, adminban, shaky>>
E == Rec[l]
Report(kind, detail) ==
  IF kind \in seen THEN TRUE
  ELSE PrintT(<<"VIOL", ToJson([sc |-> sc, line |-> l, kind |-> kind, detail |-> detail])>>)
Flag(c, kind, detail) == IF c THEN Report(kind, detail) ELSE TRUE
K(pairs) == UNION {IF p[1] THEN {p[2]} ELSE {} : p \in pairs}
ToSet(q) == {q[i] : i \in 1..Len(q)}
Role(s) == IF s = "p" THEN "primary" ELSE "replica"

TInit == /\ l = 1 /\ sc = 0 /\ seen = {} /\ mode = [s \in AllS |-> "up"] /\ hb = {} /\ hbt = [s \in AllS |-> 0]
         /\ srv = {} /\ bantime = 20 /\ adminban = [s \in AllS |-> 0] /\ shaky = {}
Reset == /\ E.ev = "reset" /\ sc' = E.sc /\ seen' = {} /\ mode' = [s \in AllS |-> "up"] /\ hb' = {} /\ hbt' = [s \in AllS |-> 0]
         /\ srv' = ToSet(E.servers) /\ bantime' = E.bantime_ds /\ adminban' = [s \in AllS |-> 0] /\ shaky' = {}

\* ban list bookkeeping from hook events that occurred during this step
Apply(e) == (hb \cup ToSet(e.banned)) \ ToSet(e.unbanned)
Times(e) == [s \in AllS |-> IF s \in ToSet(e.banned) THEN e.t ELSE hbt[s]]
PrimaryBanned(e) == "p" \in ToSet(e.banned)

Fault == /\ E.ev = "fault" /\ mode' = [mode EXCEPT ![E.s] = E.m]
         /\ hb' = Apply(E) /\ hbt' = Times(E)
         /\ Flag(PrimaryBanned(E), "primary_banned", [step |-> "fault"]) /\ seen' = seen \cup K({<<PrimaryBanned(E), "primary_banned">>})
         /\ shaky' = shaky \cup {E.s}
         /\ UNCHANGED <<sc, srv, bantime, adminban>>
Wait == /\ E.ev = "tick" /\ hb' = Apply(E) /\ hbt' = Times(E) /\ UNCHANGED <<sc, seen, mode, srv, bantime, adminban, shaky>>
AdminBan == /\ E.ev = "admin_ban"
            /\ LET v == E.s # "p" /\ E.s \in srv /\ ~(E.s \in ToSet(E.banned)) /\ ~(E.s \in hb) IN
                 /\ Flag(v, "admin_ban_ineffective", [server |-> E.s]) /\ Flag(PrimaryBanned(E), "primary_banned", [step |-> "admin_ban"])
                 /\ seen' = seen \cup K({<<v, "admin_ban_ineffective">>, <<PrimaryBanned(E), "primary_banned">>})
            /\ hb' = Apply(E) /\ hbt' = Times(E) /\ adminban' = [adminban EXCEPT ![E.s] = E.duration_ds]
            /\ UNCHANGED <<sc, mode, srv, bantime, shaky>>
AdminUnban == /\ E.ev = "admin_unban"
              /\ LET v == E.s \in hb /\ ~(E.s \in ToSet(E.unbanned)) IN
                   /\ Flag(v, "admin_unban_ineffective", [server |-> E.s]) /\ seen' = seen \cup K({<<v, "admin_unban_ineffective">>})
              /\ hb' = Apply(E) /\ hbt' = Times(E) /\ UNCHANGED <<sc, mode, srv, bantime, adminban, shaky>>

\* a ban that is certainly still in force / certainly over at time t (one-second granularity of the ban clock: 15 ds slack)
Dur(s) == IF adminban[s] > 0 THEN adminban[s] ELSE bantime
InForce(s, t) == s \in hb /\ t < hbt[s] + Dur(s) - 2
Over(s, t) == s \notin hb \/ t > hbt[s] + Dur(s) + 15

Tx ==
  /\ E.ev = "tx"
  /\ LET C == {s \in srv : E.req = "any" \/ Role(s) = E.req}
         healthy == {s \in C : mode[s] = "up"}
         tried0 == ToSet(E.tried_failed)
         \* a recovered server whose pooled connections pgcat found dead in this very transaction is not counted
         usable == {s \in healthy : Over(s, E.t0) /\ ~(s \in shaky /\ s \in tried0)}
         allBanned == (srv \ {"p"}) # {} /\ \A r \in srv \ {"p"} : InForce(r, E.t0)
         cleared == \E r \in ToSet(E.unbanned) : TRUE
         tried == ToSet(E.tried_failed)
         v1 == E.by # "none" /\ InForce(E.by, E.t0) /\ ~(E.by \in ToSet(E.unbanned_seen)) /\ usable # {}
         v2 == E.result = "refused" /\ usable # {}
         v3 == PrimaryBanned(E)
         v4 == \E s \in tried : s # "p" /\ ~(s \in ToSet(E.banned_seen)) /\ ~(s \in hb)
         v5 == allBanned /\ E.result = "refused" /\ ToSet(E.unbanned_seen) = {} /\ (\E s \in C : s # "p" /\ mode[s] = "up")
         v6 == E.result = "failed" /\ (E.by = "none" \/ mode[E.by] = "up") /\ usable # {}
         v7 == E.result = "failed" /\ E.by # "none" /\ E.by # "p" /\ mode[E.by] = "dies_under_statement"
               /\ ~(E.by \in ToSet(E.banned_seen)) /\ ~(E.by \in hb)
         v8 == E.secs_ds > E.bound_ds
         v9 == E.result = "served" /\ E.by # "none" /\ ~(E.by \in C)
         v10 == E.result = "hung"
     IN /\ Flag(v1, "banned_server_used", [by |-> E.by, req |-> E.req, usable |-> usable])
        /\ Flag(v2, "refused_although_usable", [req |-> E.req, usable |-> usable, modes |-> [s \in srv |-> mode[s]], banned |-> hb])
        /\ Flag(v3, "primary_banned", [step |-> "tx"])
        /\ Flag(v4, "failed_server_not_banned", [tried |-> tried, banned |-> ToSet(E.banned)])
        /\ Flag(v5, "all_banned_not_cleared", [req |-> E.req])
        /\ Flag(v6, "client_saw_failure_although_usable", [req |-> E.req, by |-> E.by, error |-> E.error])
        /\ Flag(v7, "dying_replica_not_banned", [by |-> E.by])
        /\ Flag(v8, "slower_than_timeouts_allow", [secs_ds |-> E.secs_ds, bound_ds |-> E.bound_ds, req |-> E.req])
        /\ Flag(v9, "wrong_role_served", [by |-> E.by, req |-> E.req])
        /\ Flag(v10, "client_blocked", [req |-> E.req])
        /\ seen' = seen \cup K({<<v1, "banned_server_used">>, <<v2, "refused_although_usable">>, <<v3, "primary_banned">>,
                                <<v4, "failed_server_not_banned">>, <<v5, "all_banned_not_cleared">>,
                                <<v6, "client_saw_failure_although_usable">>, <<v7, "dying_replica_not_banned">>,
                                <<v8, "slower_than_timeouts_allow">>, <<v9, "wrong_role_served">>, <<v10, "client_blocked">>})
  /\ hb' = Apply(E) /\ hbt' = Times(E)
  /\ shaky' = IF E.result = "served" /\ E.by # "none" THEN shaky \ {E.by} ELSE shaky
  /\ UNCHANGED <<sc, mode, srv, bantime, adminban>>

Step == /\ l <= Len(Rec) /\ l' = l + 1 /\ (Reset \/ Fault \/ Wait \/ AdminBan \/ AdminUnban \/ Tx)
TSpec == TInit /\ [][Step]_tv
Accepted == /\ PrintT(<<"MATCHED", ToString(TLCGet("stats").diameter - 1)>>)
            /\ TLCGet("stats").diameter - 1 = Len(Rec)
=============================================================================
