---- MODULE Shutdown ----
\* main.rs select! loop + client tasks, for graceful shutdown (SIGINT) and SIGTERM
EXTENDS Integers, Sequences, FiniteSets, TLC
CONSTANTS Clients, Admins, AllowBacklog, Dev
\* Dev: "no_admin_only_gate" (logins still admitted after SIGINT), "exit_on_any_drain" (exit test ignores the
\* client count), "kick_in_tx" (the shutdown broadcast is also observed inside a transaction)
VARIABLES adminOnly, total, drain, timer, running, sigint,   \* main loop
          ph, capt, counted, bcast, atSig,                    \* per client: phase, captured admin_only, counted in total, shutdown msg pending
          cut                                                 \* clients whose transaction was cut short by the shutdown (monitor)
vars == <<adminOnly, total, drain, timer, running, sigint, ph, capt, counted, bcast, atSig, cut>>
All == Clients \cup Admins
Init == /\ adminOnly = FALSE /\ total = 0 /\ drain = <<>> /\ timer = "off" /\ running = TRUE /\ sigint = FALSE
        /\ ph = [c \in All |-> "none"] /\ capt = [c \in All |-> FALSE]
        /\ counted = [c \in All |-> FALSE] /\ bcast = [c \in All |-> FALSE] /\ atSig = {} /\ cut = {}
\* accept arm: spawn task capturing current admin_only; subscribe to shutdown before spawn
Accept(c) == /\ running /\ ph[c] = "none" /\ ph' = [ph EXCEPT ![c] = "starting"]
             /\ capt' = [capt EXCEPT ![c] = adminOnly] /\ UNCHANGED <<adminOnly, total, drain, timer, running, sigint, counted, bcast, atSig, cut>>
\* Client::startup: non-admin refused in admin-only mode; otherwise authenticated, then drain.send(+1) for non-admin
Startup(c) == /\ running /\ ph[c] = "starting"
              /\ IF c \in Clients /\ capt[c] /\ "no_admin_only_gate" \notin Dev THEN ph' = [ph EXCEPT ![c] = "refused"] /\ UNCHANGED drain
                 ELSE /\ ph' = [ph EXCEPT ![c] = "idle"]
                      /\ drain' = IF c \in Clients THEN Append(drain, 1) ELSE drain
              /\ UNCHANGED <<adminOnly, total, timer, running, sigint, capt, counted, bcast, atSig, cut>>
BeginTx(c) == /\ running /\ ph[c] = "idle" /\ ph' = [ph EXCEPT ![c] = "intx"]
              /\ UNCHANGED <<adminOnly, total, drain, timer, running, sigint, capt, counted, bcast, atSig, cut>>
EndTx(c) == /\ running /\ ph[c] = "intx" /\ ph' = [ph EXCEPT ![c] = "idle"]
            /\ UNCHANGED <<adminOnly, total, drain, timer, running, sigint, capt, counted, bcast, atSig, cut>>
\* outer loop select!: shutdown.recv() observed only when idle; admin clients ignore it
Observe(c) == /\ running /\ (ph[c] = "idle" \/ ("kick_in_tx" \in Dev /\ ph[c] = "intx")) /\ bcast[c] /\ bcast' = [bcast EXCEPT ![c] = FALSE]
              /\ IF c \in Clients THEN ph' = [ph EXCEPT ![c] = "kicked"] /\ drain' = Append(drain, -1)
                 ELSE UNCHANGED <<ph, drain>>
              /\ cut' = IF ph[c] = "intx" /\ c \in Clients THEN cut \cup {c} ELSE cut
              /\ UNCHANGED <<adminOnly, total, timer, running, sigint, capt, counted, atSig>>
Leave(c) == /\ running /\ ph[c] = "idle" /\ ph' = [ph EXCEPT ![c] = "left"]
            /\ drain' = IF c \in Clients THEN Append(drain, -1) ELSE drain
            /\ UNCHANGED <<adminOnly, total, timer, running, sigint, capt, counted, bcast, atSig, cut>>
\* A CancelRequest connection is a short-lived non-admin client task: it announces itself (+1), forwards the
\* request and leaves (-1).  Deviation cancel_not_counted: only the -1 is sent.
CancelConn == /\ running /\ Len(drain) < 2 /\ total > -2 /\ total < 4
              /\ drain' = IF "cancel_not_counted" \in Dev THEN Append(drain, -1) ELSE Append(Append(drain, 1), -1)
              /\ UNCHANGED <<adminOnly, total, timer, running, sigint, ph, capt, counted, bcast, atSig, cut>>
\* main loop arms
Sigint == /\ running /\ ~sigint /\ sigint' = TRUE
          /\ (AllowBacklog \/ (drain = <<>> /\ \A c \in Clients : ph[c] # "starting"))
          /\ IF adminOnly THEN UNCHANGED <<adminOnly, drain, timer, bcast>>
             ELSE /\ adminOnly' = TRUE /\ drain' = Append(drain, 0) /\ timer' = "armed"
                  /\ bcast' = [c \in All |-> ph[c] \in {"starting", "idle", "intx"}]   \* subscribed receivers
          /\ atSig' = IF adminOnly THEN atSig ELSE {c \in Clients : ph[c] \in {"idle", "intx"}}
          /\ UNCHANGED <<total, running, ph, capt, counted, cut>>
DrainArm == /\ running /\ drain # <<>> /\ drain' = Tail(drain) /\ total' = total + Head(drain)
            /\ running' = IF "exit_on_any_drain" \in Dev THEN ~adminOnly ELSE ~(total' = 0 /\ adminOnly)
            /\ UNCHANGED <<adminOnly, timer, sigint, ph, capt, counted, bcast, atSig, cut>>
TimerArm == /\ running /\ timer = "armed" /\ timer' = "fired" /\ running' = FALSE
            /\ UNCHANGED <<adminOnly, total, drain, sigint, ph, capt, counted, bcast, atSig, cut>>
Sigterm == /\ running /\ running' = FALSE /\ UNCHANGED <<adminOnly, total, drain, timer, sigint, ph, capt, counted, bcast, atSig, cut>>
Next == (\E c \in All : Accept(c) \/ Startup(c) \/ BeginTx(c) \/ EndTx(c) \/ Observe(c) \/ Leave(c))
        \/ Sigint \/ DrainArm \/ TimerArm \/ CancelConn
Spec == Init /\ [][Next]_vars /\ WF_vars(DrainArm) /\ \A c \in All : SF_vars(Observe(c)) /\ WF_vars(EndTx(c)) /\ WF_vars(Startup(c))
\* ---- properties
NoLoginAfterSigint == \A c \in Clients : (ph[c] = "idle" /\ capt[c]) => FALSE      \* a client accepted in admin-only mode never gets in
\* graceful: the process never exits (other than by timer) while a counted, admitted client is mid-transaction
Graceful == (~running /\ timer # "fired") => \A c \in atSig : ph[c] \notin {"intx", "idle"}
\* after SIGINT, if every client eventually ends its transaction, the process exits without needing the timer
ExitsWhenDrained == sigint ~> (~running)
\* a transaction in progress is never cut short by the shutdown broadcast
TxNotCut == cut = {}
====
