------------------------------ MODULE Hostile ------------------------------
(***************************************************************************)
(* Hostile or malformed client input (C11).  A hostile client is in some     *)
(* protocol phase and sends one malformed thing; a canary client shares the  *)
(* same pool (pool_size = 1).  The model says what may happen to the sender  *)
(* (error / disconnect) and what must not happen to anybody else.            *)
(* Decode sites behind the classes: get_startup, password read,              *)
(* read_message, read_string, Parse/Bind/Describe/Close decoders,            *)
(* infer_shard_from_bind, handle_admin, the COPY arms of the client loop.    *)
(***************************************************************************)
EXTENDS Integers, Sequences, FiniteSets, TLC, Json

\* queued: the sender's request waits for the pool's only server connection, which another client holds in a transaction
Phases == {"pre_startup", "awaiting_password", "idle", "in_batch", "in_transaction", "in_copy", "admin_idle", "queued"}
\* malformation classes per phase
PreStartup == {"len_zero", "len_three", "len_negative", "len_huge", "len_longer_than_content", "unknown_code",
               "startup_no_terminator", "startup_odd_pairs", "cancel_random_key", "ssl_then_garbage", "empty_then_close"}
PasswordMal == {"pw_len_zero", "pw_len_negative", "pw_len_huge", "pw_wrong_type", "pw_truncated"}
FrameMal == {"len_zero", "len_three", "len_negative", "len_huge", "len_longer_than_content", "len_shorter_than_content",
             "unknown_type"}
BodyMal == {"query_empty_body", "query_no_terminator", "parse_empty_body", "parse_no_terminator", "parse_huge_param_count",
            "bind_empty_body", "bind_counts_inconsistent", "bind_negative_counts", "describe_empty_body", "describe_bad_target",
            "close_empty_body", "execute_empty_body", "statement_name_invalid_utf8", "bind_param_length_negative",
            "bind_param_length_huge",
            \* well-framed messages whose SQL text is pathological for a recursive-descent parser (query parser on)
            "query_deeply_nested", "parse_deeply_nested"}
OrderMal == {"stray_sync", "stray_copydata", "stray_copydone", "stray_copyfail", "stray_execute", "stray_bind",
             "stray_describe", "stray_flush", "password_message_now"}
\* abrupt departures: the sender's socket is reset while a request of his is queued or half served
AbruptMal == {"reset_while_query_queued", "reset_while_batch_queued", "reset_while_batch_with_local_reply_queued"}
Mal(p) == CASE p = "pre_startup" -> PreStartup
            [] p = "queued" -> AbruptMal
            [] p = "awaiting_password" -> PasswordMal
            [] p = "admin_idle" -> FrameMal \cup {"query_empty_body", "query_no_terminator", "stray_sync"}
            [] OTHER -> FrameMal \cup BodyMal \cup OrderMal

Cases == {<<p, m>> : p \in Phases, m \in UNION {Mal(q) : q \in Phases}} \cap
         UNION {{<<p, m>> : m \in Mal(p)} : p \in Phases}

VARIABLES hostile,   \* "none" | "connected" | "gone"
          poolerUp, canaryOk, capacity, steps
hvars == <<hostile, poolerUp, canaryOk, capacity, steps>>
HInit == hostile = "none" /\ poolerUp = TRUE /\ canaryOk = TRUE /\ capacity = 1 /\ steps = <<>>

\* Design: whatever the sender does, only the sender is affected.
Send(p, m) == /\ Len(steps) < 2 /\ <<p, m>> \in Cases
              /\ steps' = Append(steps, [phase |-> p, mal |-> m])
              /\ hostile' \in {"connected", "gone"}
              /\ UNCHANGED <<poolerUp, canaryOk, capacity>>
HNext == \E p \in Phases, m \in UNION {Mal(q) : q \in Phases} : Send(p, m)
HSpec == HInit /\ [][HNext]_hvars
OnlyTheSenderIsHurt == poolerUp /\ canaryOk /\ capacity = 1
EmitCases == (Len(steps) = 1) => PrintT(<<"CASE", ToJson(steps[1])>>)
=============================================================================
