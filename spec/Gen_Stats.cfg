SPECIFICATION GSpec
CONSTANTS
  Clients = {"A", "B", "C"}
  MaxOps = 9
  Dev = {}
INVARIANT Emit
