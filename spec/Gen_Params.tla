----------------------------- MODULE Gen_Params -----------------------------
EXTENDS Params, Json, Sequences
VARIABLE hist
gv == <<vars, hist>>
H(r) == hist' = Append(hist, r)
GNext == \E c \in Clients :
   \/ \E p \in Tracked, v \in Values :
         \* a client states its parameters before it starts working, at most one value per parameter
         /\ ~\E i \in 1..Len(hist) : hist[i].c = c /\ (hist[i].op # "startup" \/ hist[i].p = p)
         /\ Startup(c, p, v) /\ H([op |-> "startup", c |-> c, p |-> p, v |-> v])
   \/ \E s \in Conns : Checkout(c, s) /\ H([op |-> "begin", c |-> c, p |-> "", v |-> ""])
   \/ \E s \in Conns : Exec(c, s) /\ H([op |-> "stmt", c |-> c, p |-> "", v |-> ""])
   \/ \E s \in Conns : Release(c, s) /\ nops < MaxOps /\ H([op |-> "commit", c |-> c, p |-> "", v |-> ""])
   \/ \E s \in Conns, p \in Params, v \in Values : ClientSet(c, s, p, v) /\ H([op |-> "set", c |-> c, p |-> p, v |-> v])
GSpec == Init /\ hist = <<>> /\ [][GNext]_gv
Emit == (nops = MaxOps) => PrintT(<<"SCENARIO", ToJson(hist)>>)
=============================================================================
