SPECIFICATION GSpec
CONSTANTS
  Clients = {"A", "B"}
  Conns = {"s1"}
  Names = {"n1", "n2"}
  Stmts = {"q1", "q2", "q3"}
  BAD = "bad"
  NONE = NONE
  MaxBatches = 3
  MaxLen = 2
  Dev = {}
CONSTRAINT LruPrefix
INVARIANT EmitLru
