SPECIFICATION Spec
CONSTANTS
  Clients = {c1, c2}
  MaxOps = 6
  Dev = {}
INVARIANTS RowsAreClients StatesTrue CountsTrue
