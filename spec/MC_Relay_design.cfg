SPECIFICATION RSpec
CONSTANTS
  T = 8196
  Dev = {}
  MaxLen = 7
  Small = 40
  Big = 9000
INVARIANT AllComplete
