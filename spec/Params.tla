------------------------------- MODULE Params -------------------------------
(***************************************************************************)
(* Session parameters (src/server.rs ServerParameters, sync_parameters,     *)
(* 'S' handling in recv, cleanup marking; src/client.rs startup merge and   *)
(* the sync at checkout).  Tracked parameters are compared and re-set at    *)
(* every checkout; an untracked SET only marks the connection for RESET ALL. *)
(*   want[c][p]  - value client c established (startup, then its own SETs)   *)
(*   bel[s][p]   - value the pooler believes connection s has                *)
(*   tru[s][p]   - value the backend session really has                      *)
(***************************************************************************)
EXTENDS Integers, FiniteSets, TLC

\* (the @type comments are for Apalache, which proves the invariants inductive for histories of any length: ParamsApa.tla)
CONSTANTS
  \* @type: Set(Str);
  Clients,
  \* @type: Set(Str);
  Conns,
  \* @type: Set(Str);
  Tracked,
  \* @type: Set(Str);
  Untracked,
  \* @type: Set(Str);
  Values,
  \* @type: Str;
  Default,
  \* @type: Str;
  NONE,
  \* @type: Int;
  MaxOps,
  \* @type: Set(Str);
  Dev
\* Dev: "quote_not_escaped" - the sync statement SET p TO 'v' is built without escaping quotes: a value from
\*                            QuoteValues makes the statement fail on the server
\*      "no_sync"           - parameters are not synchronised at checkout
\*      "status_not_tracked"- a ParameterStatus from the server is not recorded for the client
\*      "no_reset"          - an untracked SET does not lead to RESET ALL at check-in
QuoteValues == {"vq"}
Params == Tracked \cup Untracked

VARIABLES
  \* @type: Str -> (Str -> Str);
  want,
  \* @type: Str -> (Str -> Str);
  bel,
  \* @type: Str -> (Str -> Str);
  tru,
  \* @type: Str -> Str;
  holder,
  \* @type: Str -> Bool;
  dirty,
  \* @type: Int;
  nops,
  \* @type: Set(<<Str, Str>>);
  viol
vars == <<want, bel, tru, holder, dirty, nops, viol>>

Init == /\ want = [c \in Clients |-> [p \in Tracked |-> Default]]
        /\ bel = [s \in Conns |-> [p \in Tracked |-> Default]]
        /\ tru = [s \in Conns |-> [p \in Params |-> Default]]
        /\ holder = [s \in Conns |-> NONE] /\ dirty = [s \in Conns |-> FALSE]
        /\ nops = 0 /\ viol = {}

Free(c) == \A s \in Conns : holder[s] # c

\* startup packet: the client states its values
Startup(c, p, v) == /\ Free(c) /\ nops < MaxOps /\ nops' = nops + 1 /\ p \in Tracked /\ v \in Values
                    /\ want' = [want EXCEPT ![c][p] = v]
                    /\ UNCHANGED <<bel, tru, holder, dirty, viol>>

\* checkout: sync_parameters sends SET for every tracked difference; the server's ParameterStatus
\* (processed in recv) updates the belief
SyncOne(s, c, p) ==
  IF "no_sync" \in Dev \/ bel[s][p] = want[c][p] THEN [b |-> bel[s][p], t |-> tru[s][p]]
  ELSE IF "quote_not_escaped" \in Dev /\ want[c][p] \in QuoteValues THEN [b |-> bel[s][p], t |-> tru[s][p]]  \* SET fails
  ELSE [b |-> want[c][p], t |-> want[c][p]]

Checkout(c, s) ==
  /\ Free(c) /\ holder[s] = NONE /\ nops < MaxOps /\ nops' = nops + 1
  /\ holder' = [holder EXCEPT ![s] = c]
  /\ bel' = [bel EXCEPT ![s] = [p \in Tracked |-> SyncOne(s, c, p).b]]
  /\ tru' = [tru EXCEPT ![s] = [p \in Params |-> IF p \in Tracked THEN SyncOne(s, c, p).t ELSE tru[s][p]]]
  /\ UNCHANGED <<want, dirty, viol>>

\* the client's statement runs: every tracked parameter must have the client's value; an untracked one must
\* not carry another client's value
Exec(c, s) ==
  /\ holder[s] = c /\ nops < MaxOps /\ nops' = nops + 1
  /\ viol' = viol \cup {<<"wrong_value", p>> : p \in {q \in Tracked : tru[s][q] # want[c][q]}}
                  \cup {<<"foreign_value", p>> : p \in {q \in Untracked : tru[s][q] # Default /\ ~dirty[s]}}
  /\ UNCHANGED <<want, bel, tru, holder, dirty>>

\* the client SETs a parameter itself; the server reports tracked ones.  (The SET may also travel as a later statement of a
\* multi-statement simple query, e.g. behind a COPY .. TO STDOUT whose data comes first: same effect, other reply shape.)
ClientSet(c, s, p, v) ==
  /\ holder[s] = c /\ nops < MaxOps /\ nops' = nops + 1 /\ p \in Params /\ v \in Values
  /\ tru' = [tru EXCEPT ![s][p] = v]
  /\ IF p \in Tracked
     THEN /\ bel' = [bel EXCEPT ![s][p] = v]
          /\ want' = IF "status_not_tracked" \in Dev THEN want ELSE [want EXCEPT ![c][p] = v]
     ELSE UNCHANGED <<bel, want>>
  /\ dirty' = [dirty EXCEPT ![s] = TRUE]
  /\ UNCHANGED <<holder, viol>>

\* check-in: RESET ALL when marked; the server reports the tracked parameters that changed
Release(c, s) ==
  /\ holder[s] = c
  /\ holder' = [holder EXCEPT ![s] = NONE]
  /\ IF dirty[s] /\ "no_reset" \notin Dev
     THEN /\ tru' = [tru EXCEPT ![s] = [p \in Params |-> Default]]
          /\ bel' = [bel EXCEPT ![s] = [p \in Tracked |-> Default]]
     ELSE UNCHANGED <<tru, bel>>
  /\ dirty' = [dirty EXCEPT ![s] = FALSE]
  /\ UNCHANGED <<want, nops, viol>>

Next == \E c \in Clients :
          \/ \E p \in Tracked, v \in Values : Startup(c, p, v)
          \/ \E s \in Conns : Checkout(c, s) \/ Exec(c, s) \/ Release(c, s)
          \/ \E s \in Conns, p \in Params, v \in Values : ClientSet(c, s, p, v)
Spec == Init /\ [][Next]_vars

ParamsFollowClient == viol = {}
BeliefIsTruth == \A s \in Conns : holder[s] = NONE => \A p \in Tracked : bel[s][p] = tru[s][p]
=============================================================================
