SPECIFICATION GSpec
CONSTANTS
  Clients = {"A", "B"}
  Actors = {"A"}
  Probes = {"B"}
  Conns = {"s1", "s2"}
  NONE = NONE
  PoolSize = 1
  TxMode = TRUE
  Dev = {}
  MaxMsgs = 4
  Depth = 6
  ProbesLast = TRUE
  Extras = {}
INVARIANT Emit
