SPECIFICATION PSpec
CONSTANTS
  PluginsOn = TRUE
  Dev = {}
  MaxMsgs = 4
INVARIANTS NeverForwarded NothingBlockedWhenOff
