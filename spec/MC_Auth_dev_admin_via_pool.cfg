SPECIFICATION Spec
CONSTANT Dev = {"admin_via_pool"}
INVARIANTS NoOkWithoutCredentials OnlyValidAdmitted AdmittedOnlyByRule
