--------------------------- MODULE Trace_Shutdown ---------------------------
(***************************************************************************)
(* Validates the hook trace of a real pgcat shutdown (global sequence order)*)
(* against the rules of Shutdown.tla: admin-only mode after SIGINT, drain    *)
(* accounting, the shutdown broadcast is observed only between transactions, *)
(* exit only when the drain count reached zero with nobody left or when the  *)
(* timer fired; SIGTERM exits at once.                                        *)
(***************************************************************************)
EXTENDS Integers, Sequences, FiniteSets, TLC, Json, IOUtils, TLCExt
Rec == ndJsonDeserialize(IOEnv.TRACE)
NC == atoi(IOEnv.NC)
Cl == 1..NC
VARIABLES l, sc, seen, sig, live, holding, sum, drainedSeen, timerSeen
tv == <<l, sc, seen, sig, live, holding, sum, drainedSeen, timerSeen>>
E == Rec[l]
Report(kind, detail) ==
  IF kind \in seen THEN TRUE
  ELSE PrintT(<<"VIOL", ToJson([sc |-> sc, line |-> l, kind |-> kind, detail |-> detail])>>)
Flag(c, kind, detail) == IF c THEN Report(kind, detail) ELSE TRUE
K(pairs) == UNION {IF p[1] THEN {p[2]} ELSE {} : p \in pairs}

TInit == l = 1 /\ sc = 0 /\ seen = {} /\ sig = "none" /\ live = {} /\ holding = {} /\ sum = 0
         /\ drainedSeen = FALSE /\ timerSeen = FALSE

Reset == /\ E.ev = "reset" /\ sc' = E.sc /\ seen' = {} /\ sig' = "none" /\ live' = {} /\ holding' = {} /\ sum' = 0
         /\ drainedSeen' = FALSE /\ timerSeen' = FALSE

Signal == /\ E.ev = "signal"
          /\ sig' = IF E.kind = "SIGINT" THEN (IF sig = "none" THEN "int" ELSE sig)
                    ELSE IF E.kind = "SIGTERM" THEN "term" ELSE sig
          /\ UNCHANGED <<sc, seen, live, holding, sum, drainedSeen, timerSeen>>

\* accept arm: after SIGINT the captured admin_only must be TRUE
Accept == /\ E.ev = "accept"
          /\ LET v == sig = "int" /\ ~E.admin_only IN
               /\ Flag(v, "admin_only_not_set", [cid |-> E.cid])
               /\ seen' = seen \cup K({<<v, "admin_only_not_set">>})
          /\ UNCHANGED <<sc, sig, live, holding, sum, drainedSeen, timerSeen>>

\* a non-admin client accepted in admin-only mode must never be admitted
StartupOk == /\ E.ev = "startup_ok"
             /\ LET v == ~E.admin /\ E.admin_only IN
                  /\ Flag(v, "login_after_shutdown", [client |-> E.c])
                  /\ seen' = seen \cup K({<<v, "login_after_shutdown">>})
             /\ live' = IF E.admin THEN live ELSE live \cup {E.c}
             /\ UNCHANGED <<sc, sig, holding, sum, drainedSeen, timerSeen>>

HandleDone == /\ E.ev = "handle_done" /\ live' = live \ {E.c} /\ holding' = holding \ {E.c}
              /\ UNCHANGED <<sc, seen, sig, sum, drainedSeen, timerSeen>>

Checkout == /\ E.ev = "checkout_ok" /\ holding' = holding \cup {E.c}
            /\ UNCHANGED <<sc, seen, sig, live, sum, drainedSeen, timerSeen>>
Release == /\ E.ev = "release" /\ holding' = holding \ {E.c}
           /\ UNCHANGED <<sc, seen, sig, live, sum, drainedSeen, timerSeen>>

\* the shutdown broadcast may only be acted upon between transactions
ShutdownSeen == /\ E.ev = "shutdown_seen"
                /\ LET v == E.c \in holding IN
                     /\ Flag(v, "shutdown_seen_in_transaction", [client |-> E.c])
                     /\ seen' = seen \cup K({<<v, "shutdown_seen_in_transaction">>})
                /\ UNCHANGED <<sc, sig, live, holding, sum, drainedSeen, timerSeen>>

Drain == /\ E.ev = "drain"
         /\ sum' = sum + E.delta
         /\ LET v == E.total # sum + E.delta IN
              /\ Flag(v, "drain_miscount", [total |-> E.total, expected |-> sum + E.delta])
              /\ seen' = seen \cup K({<<v, "drain_miscount">>})
         /\ UNCHANGED <<sc, sig, live, holding, drainedSeen, timerSeen>>

Drained == /\ E.ev = "drained" /\ drainedSeen' = TRUE
           /\ LET v1 == sig # "int"
                  v2 == live # {}
              IN /\ Flag(v1, "drained_exit_without_sigint", [total |-> E.total])
                 /\ Flag(v2, "exit_with_live_clients", [clients |-> live, holding |-> holding])
                 /\ seen' = seen \cup K({<<v1, "drained_exit_without_sigint">>, <<v2, "exit_with_live_clients">>})
           /\ UNCHANGED <<sc, sig, live, holding, sum, timerSeen>>

Timer == /\ E.ev = "shutdown_timeout" /\ timerSeen' = TRUE
         /\ UNCHANGED <<sc, seen, sig, live, holding, sum, drainedSeen>>

Exit == /\ E.ev = "exit"
        /\ LET v1 == E.why = "exit_rx" /\ ~drainedSeen /\ ~timerSeen
               v2 == E.why = "sigterm" /\ sig # "term"
           IN /\ Flag(v1, "exit_without_cause", [live |-> live])
              /\ Flag(v2, "sigterm_exit_without_sigterm", [why |-> E.why])
              /\ seen' = seen \cup K({<<v1, "exit_without_cause">>, <<v2, "sigterm_exit_without_sigterm">>})
        /\ UNCHANGED <<sc, sig, live, holding, sum, drainedSeen, timerSeen>>

\* what the harness saw on the wire and of the process (already a verdict of the harness)
Obs == /\ E.ev = "obs"
       /\ Report(E.kind, E.detail) /\ seen' = seen \cup {E.kind}
       /\ UNCHANGED <<sc, sig, live, holding, sum, drainedSeen, timerSeen>>

Step == /\ l <= Len(Rec) /\ l' = l + 1
        /\ (Reset \/ Signal \/ Accept \/ StartupOk \/ HandleDone \/ Checkout \/ Release \/ ShutdownSeen \/ Drain
            \/ Drained \/ Timer \/ Exit \/ Obs)
TSpec == TInit /\ [][Step]_tv
Accepted == /\ PrintT(<<"MATCHED", ToString(TLCGet("stats").diameter - 1)>>)
            /\ TLCGet("stats").diameter - 1 = Len(Rec)
=============================================================================
