---------------------------- MODULE Gen_Failover ----------------------------
EXTENDS Failover, Json
VARIABLE hist
gv == <<vars, hist>>
H(r) == hist' = Append(hist, r)
GNext ==
  \/ \E s \in Servers, m \in Modes : Fault(s, m) /\ H([op |-> "fault", s |-> s, a |-> m])
  \/ Tick /\ H([op |-> "tick", s |-> "", a |-> ""])
  \/ \E s \in Servers : AdminBan(s) /\ H([op |-> "ban", s |-> s, a |-> ""])
  \/ \E s \in Servers : AdminUnban(s) /\ H([op |-> "unban", s |-> s, a |-> ""])
  \/ \E r \in Requests : (\E o \in Orders : Tx(r, o)) /\ H([op |-> "tx", s |-> "", a |-> r])
  \* the same transaction, but the client's socket is reset right after it sent the statement: the pooler must treat
  \* the servers exactly as if the client were still there
  \/ \E r \in Requests : (\E o \in Orders : Tx(r, o)) /\ H([op |-> "tx_abandon", s |-> "", a |-> r])
  \/ \E s \in Servers : (~\E i \in 1..Len(hist) : hist[i].op = "hold") /\ Hold(s) /\ H([op |-> "hold", s |-> s, a |-> ""])
GSpec == Init /\ hist = <<>> /\ [][GNext]_gv
Emit == (nops = MaxOps) => PrintT(<<"SCENARIO", ToJson(hist)>>)
=============================================================================
