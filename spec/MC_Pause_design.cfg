SPECIFICATION Spec
CONSTANTS
  Clients = {c1, c2}
  MaxOps = 5
  Dev = {}
INVARIANT HeldWhilePaused
PROPERTY AllProceed
