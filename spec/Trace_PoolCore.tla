--------------------------- MODULE Trace_PoolCore ---------------------------
(***************************************************************************)
(* Trace validation for PoolCore.  Two event families, each totally        *)
(* ordered inside the process that recorded it, validated in separate runs: *)
(*  - hook events of the real pgcat (global sequence number): connect,      *)
(*    checkout, claim, cleanup, put-back, drop, cancel lookup;              *)
(*  - backend events of the mock PostgreSQL servers plus client-side        *)
(*    observations (one lock-protected log): every statement a session      *)
(*    executed with the session's own state before it.                      *)
(* Each event drives the corresponding PoolCore state update; the PoolCore  *)
(* invariants are evaluated after every step and a failure is reported as   *)
(* a VIOL line (the run continues so that concatenated scenarios are all    *)
(* examined).                                                               *)
(***************************************************************************)
EXTENDS PoolCore, Json, IOUtils, TLCExt

Rec == ndJsonDeserialize(IOEnv.TRACE)
NC == atoi(IOEnv.NC)
NS == atoi(IOEnv.NS)
TClients == 1..NC
TConns == 1..NS

VARIABLES l,        \* next record
          sc,       \* scenario id of the records being consumed
          psize,    \* pool_size of the scenario
          txm,      \* transaction mode of the scenario
          owner,    \* session mode: conn -> client whose session owns it (backend family)
          txconn,   \* client -> conn of its open transaction (backend family), or NONE
          seen      \* violation kinds already reported in this scenario

tvars2 == <<l, sc, psize, txm, owner, txconn, seen>>
allvars == <<vars, tvars2>>

TInit ==
  /\ Init
  /\ l = 1 /\ sc = 0 /\ psize = 1 /\ txm = TRUE
  /\ owner = [s \in Conns |-> NONE] /\ txconn = [c \in Clients |-> NONE]
  /\ seen = {}

E == Rec[l]

Report(kind, detail) ==
  IF kind \in seen THEN TRUE
  ELSE PrintT(<<"VIOL", ToJson([sc |-> sc, line |-> l, kind |-> kind, detail |-> detail])>>)

\* violations found in the state after this step
Mark(kinds) == seen' = seen \cup kinds

-----------------------------------------------------------------------------
Reset ==
  /\ E.ev = "reset"
  /\ pc' = [c \in Clients |-> "off"] /\ held' = [c \in Clients |-> NONE]
  /\ pend' = [c \in Clients |-> NONE] /\ nmsg' = [c \in Clients |-> 0]
  /\ alive' = [s \in Conns |-> FALSE] /\ idle' = [s \in Conns |-> FALSE]
  /\ bTx' = [s \in Conns |-> FALSE] /\ bCopy' = [s \in Conns |-> FALSE]
  /\ bData' = [s \in Conns |-> FALSE] /\ bad' = [s \in Conns |-> FALSE]
  /\ dirty' = [s \in Conns |-> FALSE]
  /\ tTx' = [s \in Conns |-> "I"] /\ tCopy' = [s \in Conns |-> "no"]
  /\ tUnread' = [s \in Conns |-> FALSE] /\ tDirt' = [s \in Conns |-> NONE]
  /\ tPend' = [s \in Conns |-> NONE]
  /\ last' = [s \in Conns |-> NONE] /\ cmap' = [c \in Clients |-> NONE] /\ viol' = {}
  /\ sc' = E.sc /\ psize' = E.pool_size /\ txm' = E.txmode
  /\ owner' = [s \in Conns |-> NONE] /\ txconn' = [c \in Clients |-> NONE]
  /\ seen' = {}

\* ---------------- hook family ----------------
Holder(s) == {c \in Clients : held[c] = s}

HServerConnect ==
  /\ E.ev = "server_connect"
  /\ LET s == E.s IN
       /\ alive' = [alive EXCEPT ![s] = TRUE] /\ idle' = [idle EXCEPT ![s] = TRUE]
       /\ bTx' = [bTx EXCEPT ![s] = FALSE] /\ bCopy' = [bCopy EXCEPT ![s] = FALSE]
       /\ bData' = [bData EXCEPT ![s] = FALSE] /\ bad' = [bad EXCEPT ![s] = FALSE]
       /\ dirty' = [dirty EXCEPT ![s] = FALSE]
       /\ Mark({})
  /\ UNCHANGED <<cvars, tvars, cmap, viol, sc, psize, txm, owner, txconn>>

\* A client got connection s.  Whether the last put-back reused or closed a connection is
\* read off what happens next (bb8 drops a refused connection at once), so the flags has_broken
\* saw are judged here: a connection handed out again must have been clean.  The bound on open
\* connections is judged here too (a refused connection is gone long before the next checkout).
HCheckout ==
  /\ E.ev = "checkout_ok"
  /\ LET c == E.c s == E.s
         bad1 == Holder(s) # {} /\ Holder(s) # {c}
         bad2 == ~alive[s]
         bad3 == bTx[s] \/ bCopy[s] \/ bData[s] \/ dirty[s]
         n == Cardinality({t \in Conns : alive[t]})
         bad4 == n > psize
     IN /\ held' = [held EXCEPT ![c] = s]
        /\ idle' = [idle EXCEPT ![s] = FALSE]
        /\ pc' = [pc EXCEPT ![c] = "intx"]
        /\ bTx' = [bTx EXCEPT ![s] = FALSE] /\ bCopy' = [bCopy EXCEPT ![s] = FALSE]
        /\ bData' = [bData EXCEPT ![s] = FALSE] /\ dirty' = [dirty EXCEPT ![s] = FALSE]
        /\ IF bad1 THEN Report("double_checkout", [conn |-> s, holders |-> Holder(s), client |-> c]) ELSE TRUE
        /\ IF bad2 THEN Report("checkout_of_closed", [conn |-> s, client |-> c]) ELSE TRUE
        /\ IF bad3 THEN Report("unclean_reuse", [conn |-> s, in_tx |-> bTx[s], in_copy |-> bCopy[s],
                                                  da |-> bData[s], dirty |-> dirty[s]]) ELSE TRUE
        /\ IF bad4 THEN Report("too_many_connections", [alive |-> n, pool_size |-> psize]) ELSE TRUE
        /\ Mark((IF bad1 THEN {"double_checkout"} ELSE {}) \cup (IF bad2 THEN {"checkout_of_closed"} ELSE {})
                \cup (IF bad3 THEN {"unclean_reuse"} ELSE {}) \cup (IF bad4 THEN {"too_many_connections"} ELSE {}))
  /\ UNCHANGED <<pend, nmsg, alive, bad, tvars, cmap, viol, sc, psize, txm, owner, txconn>>

HClaim ==
  /\ E.ev = "claim"
  /\ cmap' = [cmap EXCEPT ![E.c] = E.s]
  /\ Mark({})
  /\ UNCHANGED <<cvars, bvars, tvars, viol, sc, psize, txm, owner, txconn>>

HMapRemove ==
  /\ E.ev \in {"map_remove", "client_drop"}
  /\ cmap' = [cmap EXCEPT ![E.c] = NONE]
  /\ pc' = [pc EXCEPT ![E.c] = IF E.ev = "client_drop" THEN "gone" ELSE @]
  /\ Mark({})
  /\ UNCHANGED <<held, pend, nmsg, bvars, tvars, viol, sc, psize, txm, owner, txconn>>

\* has_broken at put-back: the flags are the pooler's belief at that instant.  The connection
\* is tentatively idle; a server_drop that follows says it was closed instead.
HPutBack ==
  /\ E.ev = "put_back"
  /\ LET s == E.s IN
        /\ held' = [c \in Clients |-> IF held[c] = s THEN NONE ELSE held[c]]
        /\ pc' = [c \in Clients |-> IF held[c] = s /\ pc[c] = "intx" THEN "idle" ELSE pc[c]]
        /\ idle' = [idle EXCEPT ![s] = TRUE]
        /\ bTx' = [bTx EXCEPT ![s] = E.in_tx] /\ bCopy' = [bCopy EXCEPT ![s] = E.in_copy]
        /\ bData' = [bData EXCEPT ![s] = E.da] /\ dirty' = [dirty EXCEPT ![s] = E.dirty]
        /\ bad' = [bad EXCEPT ![s] = E.bad]
        /\ Mark({})
  /\ UNCHANGED <<pend, nmsg, alive, tvars, cmap, viol, sc, psize, txm, owner, txconn>>

\* The harness reached a point at which the design model says these clients hold no server connection (they are between
\* transactions, their replies have arrived): the pooler's own bookkeeping must agree.
HSettle ==
  /\ E.ev = "settle"
  /\ LET stuck == {c \in Clients : (\E i \in 1..Len(E.idle) : E.idle[i] = c) /\ held[c] # NONE}
         bad1 == txm /\ stuck # {}
     IN /\ IF bad1 THEN Report("idle_client_holds_server", [clients |-> stuck, conns |-> {held[c] : c \in stuck}]) ELSE TRUE
        /\ Mark(IF bad1 THEN {"idle_client_holds_server"} ELSE {})
  /\ UNCHANGED <<vars, sc, psize, txm, owner, txconn>>

HServerDrop ==
  /\ E.ev = "server_drop"
  /\ LET s == E.s
     IN /\ alive' = [alive EXCEPT ![s] = FALSE] /\ idle' = [idle EXCEPT ![s] = FALSE]
        /\ Mark({})
  /\ UNCHANGED <<cvars, bTx, bCopy, bData, bad, dirty, tvars, cmap, viol, sc, psize, txm, owner, txconn>>

\* CancelRequest lookup under the map lock, joined with what the backends received for this
\* attempt (lock-step: the k-th lookup is the k-th attempt).  found: a server was named;
\* delivered: CancelRequest packets that reached any backend; target: the session they named.
HCancelLookup ==
  /\ E.ev = "cancel_lookup"
  /\ LET c == E.c
         v1 == E.found /\ (cmap[c] # E.s \/ held[c] # E.s)        \* names a session c does not hold
         v2 == E.found /\ E.delivered > 0 /\ (E.target # E.s \/ ~E.keys_ok)  \* packet went elsewhere
         v3 == ~E.found /\ E.delivered > 0                         \* nobody to cancel, yet a server was contacted
         v4 == ~E.found /\ cmap[c] # NONE                          \* mapped, but the lookup found nothing
         v5 == E.found /\ E.delivered = 0 /\ E.variant # "listener_down"   \* named, but never sent (a refused connect drops it)
     IN /\ IF v1 THEN Report("cancel_wrong_target", [client |-> c, target |-> E.s, holds |-> held[c]]) ELSE TRUE
        /\ IF v2 THEN Report("cancel_misdirected", [client |-> c, looked_up |-> E.s, reached |-> E.target,
                                                    keys_ok |-> E.keys_ok]) ELSE TRUE
        /\ IF v3 THEN Report("cancel_without_session", [client |-> c, reached |-> E.target, variant |-> E.variant]) ELSE TRUE
        /\ IF v4 THEN Report("cancel_lost", [client |-> c, mapped |-> cmap[c]]) ELSE TRUE
        /\ IF v5 THEN Report("cancel_not_sent", [client |-> c, looked_up |-> E.s]) ELSE TRUE
        /\ Mark((IF v1 THEN {"cancel_wrong_target"} ELSE {}) \cup (IF v2 THEN {"cancel_misdirected"} ELSE {})
                \cup (IF v3 THEN {"cancel_without_session"} ELSE {}) \cup (IF v4 THEN {"cancel_lost"} ELSE {})
                \cup (IF v5 THEN {"cancel_not_sent"} ELSE {}))
  /\ UNCHANGED <<vars, sc, psize, txm, owner, txconn>>

\* A CancelRequest reached a server outside every cancel attempt of the harness.  The design never does that: a request
\* is forwarded at once or dropped.  After an attempt whose connect was refused (listener down), a later delivery means
\* the pooler kept the looked-up target (deviation cancel_retried_later): it is a violation once that session has served
\* another client since - the requester's key then reached a connection it no longer holds.
HCancelStray ==
  /\ E.ev = "cancel_stray"
  /\ LET v1 == E.origin = "none"
         v2 == E.origin # "none" /\ E.used_by_other
     IN /\ IF v1 THEN Report("cancel_unsolicited", [target |-> E.target]) ELSE TRUE
        /\ IF v2 THEN Report("cancel_after_release", [client |-> E.c, target |-> E.target]) ELSE TRUE
        /\ Mark((IF v1 THEN {"cancel_unsolicited"} ELSE {}) \cup (IF v2 THEN {"cancel_after_release"} ELSE {}))
  /\ UNCHANGED <<vars, sc, psize, txm, owner, txconn>>

\* End of a scenario at a quiescent point: every client has left.
HEnd ==
  /\ E.ev = "end_hooks"
  /\ LET leaked == {s \in Conns : alive[s] /\ ~idle[s]}
         stuck == {c \in Clients : held[c] # NONE}
         mapped == {c \in Clients : cmap[c] # NONE}
         v1 == leaked # {} \/ stuck # {}
         v2 == mapped # {}
         n == Cardinality({t \in Conns : alive[t]})
         v3 == n > psize
     IN /\ IF v1 THEN Report("leak_at_quiescence", [conns |-> leaked, clients |-> stuck]) ELSE TRUE
        /\ IF v2 THEN Report("map_entry_after_exit", [clients |-> mapped]) ELSE TRUE
        /\ IF v3 THEN Report("too_many_connections", [alive |-> n, pool_size |-> psize]) ELSE TRUE
        /\ Mark((IF v1 THEN {"leak_at_quiescence"} ELSE {}) \cup (IF v2 THEN {"map_entry_after_exit"} ELSE {})
                \cup (IF v3 THEN {"too_many_connections"} ELSE {}))
  /\ UNCHANGED <<vars, sc, psize, txm, owner, txconn>>

\* ---------------- backend family ----------------
\* A session executed a statement.  c = 0 marks pooler-originated statements.
BExec ==
  /\ E.ev = "exec"
  /\ LET s == E.s c == E.c
         handoff == c # 0 /\ last[s] # NONE /\ last[s] # c
         unclean == E.txb # "I" \/ E.copyb # "no" \/ E.dirtb
         shared == c # 0 /\ ~txm /\ owner[s] # NONE /\ owner[s] # c
         split == c # 0 /\ txconn[c] # NONE /\ txconn[c] # s
         v1 == handoff /\ unclean
     IN /\ last' = [last EXCEPT ![s] = IF c = 0 THEN @ ELSE c]
        /\ tTx' = [tTx EXCEPT ![s] = E.txa]
        /\ tCopy' = [tCopy EXCEPT ![s] = E.copya]
        /\ owner' = [owner EXCEPT ![s] = IF c # 0 /\ ~txm /\ @ = NONE THEN c ELSE @]
        /\ txconn' = IF c = 0 THEN txconn
                     ELSE [txconn EXCEPT ![c] = IF E.txa = "I" /\ E.copya = "no" THEN NONE ELSE s]
        /\ IF v1 THEN Report("dirty_handoff", [conn |-> s, client |-> c, prev |-> last[s], tx |-> E.txb,
                                               copy |-> E.copyb, dirt |-> E.dirtb, what |-> E.what]) ELSE TRUE
        /\ IF shared THEN Report("session_shared", [conn |-> s, client |-> c, owner |-> owner[s]]) ELSE TRUE
        /\ IF split THEN Report("transaction_split", [client |-> c, conn |-> s, started_on |-> txconn[c]]) ELSE TRUE
        /\ Mark((IF v1 THEN {"dirty_handoff"} ELSE {}) \cup (IF shared THEN {"session_shared"} ELSE {})
                \cup (IF split THEN {"transaction_split"} ELSE {}))
  /\ UNCHANGED <<cvars, bvars, tUnread, tDirt, tPend, cmap, viol, sc, psize, txm>>

\* The client is about to close / has been told its session ended: session ownership ends.
BClosing ==
  /\ E.ev = "closing"
  /\ owner' = [s \in Conns |-> IF owner[s] = E.c THEN NONE ELSE owner[s]]
  /\ txconn' = [txconn EXCEPT ![E.c] = NONE]
  /\ Mark({})
  /\ UNCHANGED <<vars, sc, psize, txm>>

\* A session ended on the backend.
BSessionEnd ==
  /\ E.ev = "session_end"
  /\ owner' = [owner EXCEPT ![E.s] = NONE]
  /\ last' = [last EXCEPT ![E.s] = NONE]
  /\ txconn' = [c \in Clients |-> IF txconn[c] = E.s THEN NONE ELSE txconn[c]]
  /\ Mark({})
  /\ UNCHANGED <<cvars, bvars, tTx, tCopy, tUnread, tDirt, tPend, cmap, viol, sc, psize, txm>>

\* What a client observed for one of its statements (echo from the backend).
BResult ==
  /\ E.ev = "result"
  /\ LET v == E.echo_c # E.c \/ E.echo_n # E.n IN
       /\ IF v THEN Report("misattributed_result", [client |-> E.c, n |-> E.n, got_client |-> E.echo_c,
                                                    got_n |-> E.echo_n]) ELSE TRUE
       /\ Mark(IF v THEN {"misattributed_result"} ELSE {})
  /\ UNCHANGED <<vars, sc, psize, txm, owner, txconn>>

Step ==
  /\ l <= Len(Rec)
  /\ l' = l + 1 /\ vanished' = vanished /\ late' = late   \* the trace records what happened; who is gone is known from client_drop / closing
  /\ \/ Reset
     \/ HServerConnect \/ HCheckout \/ HClaim \/ HMapRemove \/ HPutBack \/ HServerDrop
     \/ HCancelLookup \/ HCancelStray \/ HEnd \/ HSettle
     \/ BExec \/ BClosing \/ BSessionEnd \/ BResult

TSpec == TInit /\ [][Step]_allvars

Accepted ==
  /\ PrintT(<<"MATCHED", ToString(TLCGet("stats").diameter - 1)>>)
  /\ TLCGet("stats").diameter - 1 = Len(Rec)
=============================================================================
