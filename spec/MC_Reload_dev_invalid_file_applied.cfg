SPECIFICATION Spec
CONSTANTS
  Clients = {c1, c2}
  Defs = {"A", "B"}
  MaxOps = 7
  Dev = {"invalid_file_applied"}
INVARIANTS ConfigIsValid PoolsFollowConfig NoViolation InvalidChangesNothing
