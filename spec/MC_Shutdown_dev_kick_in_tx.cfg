SPECIFICATION Spec
CONSTANTS
  Clients = {c1, c2}
  Admins = {a1}
  AllowBacklog = FALSE
  Dev = {"kick_in_tx"}
INVARIANTS NoLoginAfterSigint Graceful TxNotCut
PROPERTY ExitsWhenDrained
