----------------------------- MODULE ParamsApa -----------------------------
(***************************************************************************)
(* Unbounded check of the Params design with Apalache: IndInv holds         *)
(* initially and is preserved by every step, so ParamsFollowClient and      *)
(* BeliefIsTruth hold in histories of any length (TLC covers MaxOps steps). *)
(*   apalache-mc check --cinit=ConstInit --init=Init    --inv=IndInv --length=0 ParamsApa.tla *)
(*   apalache-mc check --cinit=ConstInit --init=IndInit --inv=IndInv --length=1 ParamsApa.tla *)
(* (three clients, two connections, two tracked and one untracked parameter, three values) *)
(***************************************************************************)
EXTENDS Params

ConstInit ==
  /\ Clients = {"c1", "c2", "c3"} /\ Conns = {"s1", "s2"}
  /\ Tracked = {"app", "tz"} /\ Untracked = {"wm"}
  /\ Values = {"d", "v1", "vq"} /\ Default = "d" /\ NONE = "none"
  /\ MaxOps = 1000000 /\ Dev = {}

\* negative control: without the synchronisation at checkout the same invariant is not inductive
ConstInitNoSync ==
  /\ Clients = {"c1", "c2", "c3"} /\ Conns = {"s1", "s2"}
  /\ Tracked = {"app", "tz"} /\ Untracked = {"wm"}
  /\ Values = {"d", "v1", "vq"} /\ Default = "d" /\ NONE = "none"
  /\ MaxOps = 1000000 /\ Dev = {"no_sync"}

TypeOK ==
  /\ want \in [Clients -> [Tracked -> Values]]
  /\ bel \in [Conns -> [Tracked -> Values]]
  /\ tru \in [Conns -> [Params -> Values]]
  /\ holder \in [Conns -> Clients \cup {NONE}]
  /\ dirty \in [Conns -> BOOLEAN]
  /\ nops \in 0..MaxOps

IndInv ==
  /\ TypeOK
  /\ viol = {}
  \* the belief about a connection is what the session really has
  /\ \A s \in Conns : \A p \in Tracked : bel[s][p] = tru[s][p]
  \* a connection that is checked out carries its holder's values
  /\ \A s \in Conns : holder[s] # NONE => \A p \in Tracked : tru[s][p] = want[holder[s]][p]
  \* an unmarked connection has no untracked setting left
  /\ \A s \in Conns : ~dirty[s] => \A p \in Untracked : tru[s][p] = Default
  \* a client holds at most one connection
  /\ \A s1, s2 \in Conns : holder[s1] # NONE /\ holder[s1] = holder[s2] => s1 = s2

IndInit == IndInv
Props == ParamsFollowClient /\ BeliefIsTruth
=============================================================================
