#!/bin/sh
# Build everything the checks need, offline, from files on disk.
set -e
cd "$(dirname "$0")"
export CARGO_NET_OFFLINE=true
export CARGO_PROFILE_RELEASE_OPT_LEVEL=1
mkdir -p .build .work evidence/replays
cargo build --release --offline --features verif --bin pgcat \
  --manifest-path /repo/Cargo.toml --target-dir .build/target
if [ -f harness/rs/Cargo.toml ]; then
  cp /repo/Cargo.lock harness/rs/Cargo.lock 2>/dev/null || true
  cargo build --release --offline --manifest-path harness/rs/Cargo.toml --target-dir .build/target
fi
java -cp /opt/veriftools/tla/tla2tools.jar tlc2.TLC -h >/dev/null 2>&1 || true
echo setup ok
