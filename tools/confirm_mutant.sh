#!/bin/bash
# confirm_mutant.sh <worktree> <workdir> <outdir>: re-check a seeded change in its scratch worktree:
# compiles, baseline unit tests pass (35), demo fails with the patch and passes without it.
WT=$1; WK=$2; OUT=$3
mkdir -p "$OUT"
cp "$WK/patch.diff" "$OUT/patch.diff"; rm -rf "$OUT/demo"; cp -r "$WK/demo" "$OUT/demo"; cp "$WK/meta.json" "$OUT/meta.agent.json"
cd "$WT" || exit 2
git checkout -q -- . ; git apply "$WK/patch.diff" || { echo "patch does not apply"; exit 2; }
T=$(cargo test --lib --offline 2>&1 | grep "test result" | tail -1)
bash "$WK/demo/run.sh" "$WT" > "$OUT/demo_with_patch.log" 2>&1; RC1=$?
git checkout -q -- .
bash "$WK/demo/run.sh" "$WT" > "$OUT/demo_without_patch.log" 2>&1; RC0=$?
echo "tests_with_patch: $T"; echo "demo_with_patch_rc=$RC1 demo_without_patch_rc=$RC0"
python3 - "$OUT" "$T" "$RC1" "$RC0" <<'PY'
import json,sys
out,t,rc1,rc0=sys.argv[1:5]
m=json.load(open(out+'/meta.agent.json'))
m['confirmed']={'unit_tests_with_patch':t,'demo_rc_with_patch':int(rc1),'demo_rc_without_patch':int(rc0),
  'ok': ('35 passed' in t) and int(rc1)!=0 and int(rc0)==0}
json.dump(m,open(out+'/meta.json','w'),indent=1)
PY
rm -f "$OUT/meta.agent.json"
