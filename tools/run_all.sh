#!/bin/bash
# run_all.sh [tier]: every registered check once, in order; summary on stdout.  Exit 0 iff all exited 0.
cd "$(dirname "$0")/.." || exit 2
tier=${1:-quick}
bad=0
for p in $(python3 -c "import json;print(' '.join(sorted(c['property_id'] for c in json.load(open('MANIFEST.json'))['checks'])))"); do
  t0=$(date +%s)
  out=$(./check $p --tier $tier 2>&1); rc=$?
  t1=$(date +%s)
  echo "$p rc=$rc $((t1-t0))s $(echo "$out" | tail -n 1 | cut -c1-160)"
  if [ $rc -ne 0 ]; then bad=1; echo "$out" | grep -E "VIOLATION|signature|TOOL-ERROR" | head -6 | cut -c1-300; fi
done
exit $bad
