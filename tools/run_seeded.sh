#!/bin/bash
# run_seeded.sh [ids...]: apply every seeded change to /repo's working tree in turn, run the quick check of its property,
# undo the change, and record what the check reported in seeded/RESULTS.json.  /repo must be clean.
cd "$(dirname "$0")/.." || exit 2
if [ -n "$(git -C /repo status --porcelain)" ]; then echo "/repo is not clean"; exit 2; fi
ids=("$@"); if [ ${#ids[@]} -eq 0 ]; then ids=($(ls seeded | grep -E '^C[0-9]+-[0-9]+$')); fi
mkdir -p .work/seeded
for id in "${ids[@]}"; do
  prop=${id%%-*}
  patch=seeded/$id/patch.diff
  [ -f seeded/$id/patch.rebased.diff ] && patch=seeded/$id/patch.rebased.diff
  if grep -q '"neutralised_by"' seeded/$id/meta.json 2>/dev/null; then echo "$id: neutralised by a later fix (see meta.json), skipped"; echo "{\"id\":\"$id\",\"applies\":true,\"neutralised\":true}" > .work/seeded/$id.json; continue; fi
  if ! git -C /repo apply --check "$PWD/$patch" 2>/dev/null; then echo "$id: patch does not apply"; echo "{\"id\":\"$id\",\"applies\":false}" > .work/seeded/$id.json; continue; fi
  git -C /repo apply "$PWD/$patch"
  cp evidence/$prop.json .work/seeded/$prop.evidence.keep 2>/dev/null
  t0=$(date +%s)
  ./check $prop --tier quick > .work/seeded/$id.log 2>&1; rc=$?
  t1=$(date +%s)
  git -C /repo checkout -- .
  cp .work/seeded/$prop.evidence.keep evidence/$prop.json 2>/dev/null
  rm -f evidence/replays/${prop}_quick_*.json
  python3 - "$id" "$rc" "$((t1-t0))" <<'PY'
import json,sys,re
id,rc,wall=sys.argv[1],int(sys.argv[2]),int(sys.argv[3])
log=open('.work/seeded/%s.log'%id).read()
sigs=sorted(set(re.findall(r'signature: (\S+)',log)))
json.dump({'id':id,'applies':True,'rc':rc,'wall_s':wall,'signatures':sigs[:12],'n_signatures':len(sigs)},open('.work/seeded/%s.json'%id,'w'))
print(id,'rc=%d'%rc,'%ds'%wall,sigs[:3])
PY
done
python3 - <<'PY'
import json,glob,os
res={}
try: res=json.load(open('seeded/RESULTS.json'))
except Exception: pass
for p in sorted(glob.glob('.work/seeded/C*-*.json')):
    r=json.load(open(p)); res[r['id']]=r
json.dump(res,open('seeded/RESULTS.json','w'),indent=1,sort_keys=True)
PY
git -C /repo status --porcelain
