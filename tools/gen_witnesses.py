#!/usr/bin/env python3
"""Derive the PoolCore witness corpus from the specification.

For every deviation class d of spec/PoolCore.tla (a named way the implementation could depart from the
design) TLC enumerates the behaviours of Gen_PoolCore with Dev = {d} and marks those in which a PoolCore
invariant breaks.  The controllable history of such a behaviour is a scenario that is sensitive to that
class of defect.  The same controllable history is then looked up among the behaviours of the DESIGN model
(Dev = {}), whose settle-states are the expectations the replayer uses.  Output: spec/witnesses_poolcore.json.
"""
import json
import os
import sys

HERE = os.path.dirname(os.path.abspath(__file__))
sys.path.insert(0, os.path.join(HERE, '..', 'harness', 'py'))
from verif import tlc, props_pool  # noqa

FAMILIES = {
    'tx1h': dict(mode='transaction', pool_size=1, depth=7, maxmsgs=4, probes_last=True),
    'sess1h': dict(mode='session', pool_size=1, depth=6, maxmsgs=3, probes_last=True),
    'tx1': dict(mode='transaction', pool_size=1, depth=5, maxmsgs=3, probes_last=False),
    'tx1v': dict(mode='transaction', pool_size=1, depth=5, maxmsgs=3, probes_last=True, extras=('vanish',)),
    # cancel requests made while the server's listener is down for a moment
    'tx1c': dict(mode='transaction', pool_size=1, depth=6, maxmsgs=1, probes_last=True, extras=('ldown',)),
    # two clients with two connections, a few message kinds, long histories (clients exchange connections): too many
    # for enumeration, TLC samples them (simulation mode)
    'tx2s': dict(mode='transaction', pool_size=2, depth=9, maxmsgs=4, probes_last=False, actors=('A', 'B'),
                 actor_kinds=('begin', 'commit'), simulate=150000),
}
# a family with extra environment steps serves only the deviations that need those steps
ONLY_FOR = {'tx1c': {'cancel_retried_later'}, 'tx2s': {'claim_unmaps_previous'}}
NEEDS = {'cancel_retried_later': {'tx1c'}, 'claim_unmaps_previous': {'tx2s'}}
# what a history must contain besides breaking the model's invariant, so that the defect shows on the wire
# (a late cancel request is observable once the connection has served another client)
def _cancel_after_bad(steps):
    """a client whose map entry is missing asks for a cancel"""
    unmapped = []
    for x in steps:
        if x['op'] == 'state':
            unmapped = x.get('unmapped', [])
        if x['op'] == 'cancel' and x['c'] in unmapped:
            return True
    return False


USEFUL = {'cancel_retried_later': lambda steps: any(x['op'] == 'send' and x['c'] != 'A' for x in steps),
          # (a missing map entry shows when the client asks for a cancel)
          'claim_unmaps_previous': _cancel_after_bad}
# deviations that change nothing but the cancel map (which no other variable depends on): what the design expects of
# clients and connections in such a history is what the deviating run shows, so sampled histories need no design twin
SAME_EXPECTATIONS = {'claim_unmaps_previous'}
DEVS = ["putback_reuses_unclean", "copydone_single_recv", "copydone_no_copy_check", "set_in_tx_not_marked",
        "reset_before_rollback", "timeout_keeps_connection", "failed_tx_counts_as_idle", "prepare_not_marked",
        "no_rollback_at_checkin", "no_reset_at_checkin", "map_kept_after_release", "early_return_leaks_guard",
        "error_keeps_copy_mode", "timeout_marks_bad_after_write", "local_batch_keeps_server", "reset_clears_dirty", "cleanup_in_copy_reuses", "cancel_retried_later", "claim_unmaps_previous"]
PER = 40


def key(steps):
    return json.dumps([(s['op'], s['c'], s['k']) for s in steps if s['op'] != 'state'])


def shape(steps):
    return tuple(sorted({(s['op'], s['k']) for s in steps if s['op'] != 'state'}))


def run(fam, dev):
    f = FAMILIES[fam]
    cfg = 'Gen_PoolCore_w_%s.cfg' % fam
    text = props_pool.gen_cfg_text(f['mode'], f['pool_size'], f['depth'], maxmsgs=f['maxmsgs'], probes_last=f['probes_last'],
                                   extras=f.get('extras', ()), actors=f.get('actors', ('A',)),
                                   actor_kinds=f.get('actor_kinds', props_pool.ALL_KINDS))
    text = text.replace('Dev = {}', 'Dev = {%s}' % (('"%s"' % dev) if dev else ''))
    with open(os.path.join(tlc.SPEC, cfg), 'w') as fh:
        fh.write(text)
    res = tlc.run_tlc('Gen_PoolCore', cfg, workers=12, timeout=3000, xmx='24g', simulate=f.get('simulate'),
                      depth=150 if f.get('simulate') else None, seed=7 if f.get('simulate') else None)
    os.unlink(os.path.join(tlc.SPEC, cfg))
    if res.rc != 0:
        raise SystemExit('TLC failed for %s/%s: %s' % (fam, dev, res.errors()[:3]))
    return [o for t, o in res.prints if t == 'SCENARIO']


def main():
    """Without arguments every deviation is (re)generated; with arguments only the named deviations are generated and
    merged into the existing corpus (the stored design expectations of the other scenarios are kept)."""
    only = sys.argv[1:]
    devs = only or DEVS
    out = []
    path = os.path.join(tlc.SPEC, 'witnesses_poolcore.json')
    if only:
        with open(path) as fh:
            for w in json.load(fh):
                for d in w['witness_of']:
                    if d not in only:
                        out.append(dict(w, witness_of=d))
    for fam in FAMILIES:
        fam_devs = [d for d in devs if (fam not in ONLY_FOR or d in ONLY_FOR[fam]) and (d not in NEEDS or fam in NEEDS[d])]
        if not fam_devs:
            continue
        design = {}
        if not all(d in SAME_EXPECTATIONS for d in fam_devs):
            for sc in run(fam, None):
                design.setdefault(key(sc['steps']), sc['steps'])
        print(fam, 'design behaviours', len(design), flush=True)
        for dev in fam_devs:
            seen_shapes = {}
            n = 0
            for sc in run(fam, dev):
                if not sc['bad']:
                    continue
                k = key(sc['steps'])
                if dev in SAME_EXPECTATIONS:
                    design.setdefault(k, [dict(x, bad=False, unmapped=[]) if x['op'] == 'state' else x for x in sc['steps']])
                if k not in design:
                    continue
                if dev in USEFUL and not USEFUL[dev](sc['steps']):
                    continue
                sh = shape(sc['steps'])
                if seen_shapes.get(sh, 0) >= 2:
                    continue
                seen_shapes[sh] = seen_shapes.get(sh, 0) + 1
                out.append({'steps': design[k], 'mode': FAMILIES[fam]['mode'], 'pool_size': FAMILIES[fam]['pool_size'],
                            'family': fam, 'witness_of': dev})
                n += 1
                if n >= PER:
                    break
            print(fam, dev, 'witnesses', n, flush=True)
    # de-duplicate identical scenarios, keep the list of deviations they witness
    merged = {}
    for w in out:
        k = (w['family'], key(w['steps']))
        if k in merged:
            if w['witness_of'] not in merged[k]['witness_of']:
                merged[k]['witness_of'].append(w['witness_of'])
        else:
            w = dict(w)
            w['witness_of'] = [w['witness_of']]
            merged[k] = w
    with open(path, 'w') as fh:
        json.dump(list(merged.values()), fh)
    print('wrote', len(merged), 'scenarios to', path)


if __name__ == '__main__':
    main()
